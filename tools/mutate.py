#!/usr/bin/env python3
"""Mutation sweep: small operator mutants of the functions under contract, each verified with `apdvc vc` on the
function it sits in. A mutant that still verifies ("survived") points at a weak contract (or is equivalent);
survivors are then run against the repository's own tests to see whether those notice.

usage: mutate.py [--files a.go,b.go] [--max N] [--jobs J] [--out FILE]
"""
import argparse, json, os, re, shutil, subprocess, sys, tempfile, random
from concurrent.futures import ThreadPoolExecutor

ENV = dict(os.environ, GOFLAGS='-mod=mod', GOPROXY='off', GOSUMDB='off', GOTOOLCHAIN='local')
REPO = '/repo'
BASE = None   # frozen copy of /repo taken at start (edits to /repo during the sweep must not leak into it)
APDVC = '/verif/bin/apdvc'

OPS = [
    (r'(?<![<>=!&|+\-*/])<=(?!=)', '<'), (r'(?<![<>=!&|\-])<(?![<=\-])', '<='),
    (r'(?<![<>=!&|+\-*/])>=(?!=)', '>'), (r'(?<![<>=!&|\-])>(?![>=])', '>='),
    (r'==', '!='), (r'!=', '=='),
    (r'&&', '||'), (r'\|\|', '&&'),
    (r'(?<![+\w)\]]) ?\+ 1\b', ' - 1'), (r' - 1\b', ' + 1'),
    (r'\btrue\b', 'false'), (r'\bfalse\b', 'true'),
    (r'(?<![+])\+(?![+=])', '-'), (r'(?<![-<])-(?![-=>])', '+'),
    (r'\bx\.Negative\b', 'y.Negative'), (r'\bd\.Negative\b', 'x.Negative'),
    (r'\|= ', '= '), (r'&\^', '&'),
]

def contract_names():
    names = set()
    for l in open(os.path.join(REPO, 'verif_contracts.go')):
        if l.startswith('//@ func '):
            names.add(l[9:].strip())
    return names

FUNC_RE = re.compile(r'^func (?:\((\w+) (\*?)(\w+)\) )?(\w+)\(')

def enclosing(lines, i):
    for j in range(i, -1, -1):
        m = FUNC_RE.match(lines[j])
        if m:
            recv, star, typ, name = m.groups()
            if typ:
                return ('(*%s).%s' % (typ, name)) if star else ('%s.%s' % (typ, name))
            return name
        if lines[j].startswith('}'):
            return None
    return None

def gen(files, names):
    muts = []
    for f in files:
        lines = open(os.path.join(BASE or REPO, f)).read().split('\n')
        for i, l in enumerate(lines):
            s = l.strip()
            if not s or s.startswith('//') or l.startswith('func ') or l.startswith('import') or l.startswith('\t"'):
                continue
            fn = enclosing(lines, i)
            if fn is None or fn not in names:
                continue
            code = l.split('//')[0]
            # statement deletion: a plain assignment or a call statement
            st = code.strip()
            if (re.match(r'^[\w.\[\]&*()]+ (=|\|=|\+=|-=) [^=].*$', st) or re.match(r'^[\w.]+\(.*\)$', st)) and not st.startswith(('return', 'if ', 'for ', 'switch ', 'case ', 'defer ', 'go ', 'panic(')):
                muts.append({'file': f, 'line': i + 1, 'fn': fn, 'old': l.strip(), 'new': '(deleted)', '_new_line': ''})
            for k, (pat, rep) in enumerate(OPS):
                for m in re.finditer(pat, code):
                    if '"' in code[:m.start()] and code[:m.start()].count('"') % 2 == 1:
                        continue
                    new = code[:m.start()] + rep + code[m.end():] + l[len(code):]
                    if new != l:
                        muts.append({'file': f, 'line': i + 1, 'fn': fn, 'old': l.strip(), 'new': new.strip(), '_new_line': new})
    return muts

def run(m, idx):
    t = tempfile.mkdtemp(prefix='mut%04d_' % idx, dir='/tmp')
    try:
        subprocess.run(['cp', '-r', BASE + '/.', t], check=True)
        p = os.path.join(t, m['file'])
        lines = open(p).read().split('\n')
        lines[m['line'] - 1] = m['_new_line']
        open(p, 'w').write('\n'.join(lines))
        b = subprocess.run(['go', 'build', './...'], cwd=t, env=ENV, capture_output=True, text=True)
        if b.returncode != 0:
            return dict(m, status='nobuild')
        e = dict(ENV, APDVC_REPO=t)
        v = subprocess.run([APDVC, 'vc', '-t', '12', m['fn']], env=e, capture_output=True, text=True, timeout=900)
        out = v.stdout + v.stderr
        last = [l for l in out.strip().split('\n') if 'obligations' in l][-1:] or ['']
        if 'PROBLEM' in out or 'load:' in out:
            return dict(m, status='killed', by='contract no longer applies')
        mm = re.search(r'(\d+) obligations, (\d+) not proved', last[0])
        if not mm:
            return dict(m, status='error', detail=out[-300:])
        if int(mm.group(2)) > 0:
            first = [l for l in out.split('\n') if l.startswith(('failed', 'timeout', 'unknown'))][:1]
            return dict(m, status='killed', by=(first[0].split()[3] if first and len(first[0].split()) > 3 else '?'))
        # survived the contracts: do the repository's tests notice?
        tr = subprocess.run(['go', 'test', '-vet=off', '-count=1', '-timeout', '300s', './...'], cwd=t, env=ENV, capture_output=True, text=True)
        fails = [l for l in tr.stdout.split('\n') if l.startswith('--- FAIL') and 'TestFormatFlags' not in l]
        return dict(m, status='survived', tests='fail' if fails else 'pass', test_fail=(fails[0][:80] if fails else ''))
    except subprocess.TimeoutExpired:
        return dict(m, status='killed', by='timeout of the whole function')
    finally:
        shutil.rmtree(t, ignore_errors=True)

def main():
    ap = argparse.ArgumentParser()
    ap.add_argument('--files', default='context.go,decimal.go,round.go,table.go,bigint.go,condition.go,error.go,loop.go')
    ap.add_argument('--max', type=int, default=200)
    ap.add_argument('--jobs', type=int, default=3)
    ap.add_argument('--seed', type=int, default=1)
    ap.add_argument('--out', default='/tmp/mutation_results.jsonl')
    ap.add_argument('--skip', default='', help='comma-separated contract names to leave out (functions whose values no property specifies)')
    a = ap.parse_args()
    global BASE, APDVC
    BASE = tempfile.mkdtemp(prefix='mutbase_', dir='/tmp')
    subprocess.run(['cp', '-r', REPO + '/.', BASE], check=True)
    shutil.copy('/verif/bin/apdvc', BASE + '/.apdvc')
    APDVC = BASE + '/.apdvc'
    names = contract_names()
    muts = [m for m in gen(a.files.split(','), names) if m['fn'] not in set(a.skip.split(','))]
    random.Random(a.seed).shuffle(muts)
    muts = muts[:a.max]
    print('%d mutants' % len(muts), flush=True)
    with open(a.out, 'w') as fo, ThreadPoolExecutor(a.jobs) as ex:
        for r in ex.map(lambda im: run(im[1], im[0]), enumerate(muts)):
            r.pop('_new_line', None)
            fo.write(json.dumps(r) + '\n'); fo.flush()
            print(r['status'], r.get('tests', ''), r['file'], r['line'], r['fn'], '|', r['old'][:60], '=>', r['new'][:60], '|', r.get('by', ''), flush=True)
    shutil.rmtree(BASE, ignore_errors=True)

main()
