#!/bin/bash
# Runs every seeded change against the quick check of its property in a scratch worktree (APDVC_REPO),
# with a scratch output directory so that committed evidence is not touched. Prints one line per seed.
export GOFLAGS=-mod=mod GOPROXY=off GOSUMDB=off GOTOOLCHAIN=local
OUT=$(mktemp -d /tmp/seedoutXXXX)
cp /verif/known_findings.json $OUT/
for S in /verif/seeded/${SEEDGLOB:-*}/; do
  NAME=$(basename $S)
  PROP=$(python3 -c "import json;print(json.load(open('$S/meta.json'))['property'])")
  WT=$(mktemp -d /tmp/seedwtXXXX); rmdir $WT
  git -C /repo worktree add --detach $WT HEAD -q || continue
  if ! git -C $WT apply $S/patch.diff 2>/dev/null; then echo "$NAME $PROP PATCH-DOES-NOT-APPLY"; git -C /repo worktree remove --force $WT; continue; fi
  RES=$(APDVC_REPO=$WT APDVC_VERIF=$OUT /verif/bin/apdvc check $PROP --tier quick 2>&1 | grep '^VIOLATION' | head -3 | sed 's/replay=[^ ]* //' | tr '\n' ';')
  if [ -z "$RES" ]; then RES="MISSED"; fi
  echo "$NAME $PROP $RES"
  git -C /repo worktree remove --force $WT
done
rm -rf $OUT
