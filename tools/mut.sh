#!/bin/bash
# usage: mut.sh <file> <sed-expr> [apdvc vc args...]
# applies a sed expression to a scratch copy of /repo and runs apdvc vc there
set -e
T=$(mktemp -d /tmp/mutXXXX)
cp -r /repo/. $T/
cd $T
sed -i "$2" "$1"
if git diff --quiet -- "$1"; then echo "MUTATION DID NOT APPLY"; rm -rf $T; exit 3; fi
git diff -- "$1" | grep '^[-+]' | grep -v '^+++\|^---'
export GOFLAGS=-mod=mod GOPROXY=off GOSUMDB=off GOTOOLCHAIN=local
if ! go build ./... 2>&1 | head -5; then echo "BUILD FAILED"; fi
shift 2
APDVC_REPO=$T /verif/bin/apdvc vc "$@" 2>&1 | tail -6 | cut -c1-160
rm -rf $T
