#!/usr/bin/env python3
"""Regenerates /verif/MANIFEST.json. CLAIMED lists the properties whose checks are registered."""
import json, sys

ENV = "GOFLAGS=-mod=mod GOPROXY=off GOSUMDB=off GOTOOLCHAIN=local"

NA = {
 'C11': 'accuracy of a Newton iteration run at a heuristic working precision: needs real-analysis error bounds that no SMT-discharged contract can carry (DESIGN 7/C11); its safety, frame, trap and special-value side facts are claimed under C03-C08',
 'C12': 'accuracy of truncated series with float-derived iteration counts and float initial estimates: no contract within reach of an SMT back end expresses |result-exp(x)| <= 1 ulp (DESIGN 7/C12)',
}

TRUST = ("trusted: the VC generator apdvc and go/ssa; z3 5.1.0 / z3 4.8.12 / cvc5 1.0.3 (unsat from any one accepted); "
         "ground-instantiated lemma library and the axioms stated in /repo/verif_contracts.go (pow10_add, div_lt, div_ge ...); "
         "BigInt methods as seen from layer 2 are assumed contracts unless C16 proves them; A-size (< 10^9 digits per coefficient); "
         "64-bit words; global table invariant base case by evaluation. Every assumption actually used by a run is listed in its evidence file.")

CLAIMS = {
 'C01': ("Deductive proof, for all operands, contexts, rounding modes and aliasing patterns, that the real bodies of Rounder.Round, setExponent, add/Add/Sub, Abs, Neg, Mul, Quo and Context.Round satisfy a postcondition written from the property text (the Rounded oracle: exact value rounded once; subnormal, overflow, zero cases; sign of the exact result). Each callee is used only through its contract.",
         "7/C01", "weakest-precondition VCs over go/ssa, contracts in /repo/verif_contracts.go, discharged by z3/cvc5"),
 'C02': ("The flag part of the same postconditions: exact iff for Inexact/Subnormal/Underflow/Overflow, implications for Rounded/Clamped, division conditions, and closure inside the twelve documented bits, proved for every path.",
         "7/C02", "contract postconditions on Condition values (bit-vector theory) over go/ssa VCs"),
 'C03': ("GoError/goError functional contract for all 2^12 trap sets (symbolic bit-vector); err != nil iff trapped-or-system as a postcondition of every single-rounding operation; ErrDecimal delegation contracts; nil-error implies clean ErrDecimal for the composite functions.",
         "7/C03", "contract postconditions relating error result, flags and Context.Traps"),
 'C04': ("No-panic obligations generated without annotation for every function under contract: nil dereference, index bounds, division by zero, explicit panic unreachable, callee preconditions; a measure for every loop that has one, an error-exit obligation (a pending ErrDecimal error ends the loop) for the loops that multiply through an ErrDecimal; the evidence lists every loop with neither.",
         "7/C04", "automatic safety obligations (class S) and loop variants (class L) over go/ssa"),
 'C05': ("Every functional contract is proved without any distinctness assumption on same-typed parameters, with postconditions over old() values: the proof covers d==x, d==y, x==y and d==x==y at once. For every function with a destination (including Sqrt, Cbrt, Exp, Ln, Log10, Pow whose values are unspecified) class D obligations prove non-interference: the destination's old contents are never read, and every read through an operand returns the operand's entry value under every aliasing.",
         "7/C05", "alias-general memory model (field-indexed arrays, no separation assumptions)"),
 'C06': ("Frame obligations (class F): every pre-existing location outside the assigns set, including the Context, non-destination operands and the global tables, is unchanged at every return; functional postconditions determine the destination from the operands only; class D obligations: no field of the destination is read before it is written and all of them are written on every nil-error return.",
         "7/C06", "frame obligations with Skolem locations per heap field"),
 'C07': ("'fits the context' is part of the Rounded oracle proved for Round, add, Mul, Quo, Rem, Quantize and inherited by contract at the final round call of the composite functions.",
         "7/C07", "contract postconditions (digit count, adjusted exponent, Etiny bound)"),
 'C08': ("Special-value rows of the GDA tables quoted in the property as postconditions of the straight-line prologues (NaN/sNaN propagation, Inf-Inf, 0*Inf, x/0, 0/0, signs of zero sums), for operands of any exponent.",
         "7/C08", "contract postconditions on Form/Negative/flags"),
 'C09': ("quantize/Quantize/RoundToIntegral*/Ceil/Floor against one branch-free formula for every magnitude of x relative to 10^e.",
         "7/C09", "contract postconditions; three code branches must each establish the same formula"),
 'C10': ("QuoInteger and Rem contracts (truncated quotient, remainder with the dividend's sign, DivisionImpossible guard) and the division identity as a lemma over the two contracts.",
         "7/C10", "contract postconditions plus a lemma over contracts"),
 'C13': ("Decided by contracts on the real formatter and parser: (1) String/Text('G','g','E','e')/MarshalText write exactly the specified text (C14) and that text satisfies the hypothesis FinText/SpecText; (2) setString - and through their own contracts Context.SetString, NewFromString, Decimal.SetString, Context.NewFromString, UnmarshalText - given a text satisfying FinText(s, neg, C, E) (plain notation with exponent <= 0, or scientific with E or e) for a value inside the exponent limits returns no error and exactly form Finite, sign neg, coefficient C, exponent E; given the text of an infinity or a (signalling, negative) NaN exactly that form and sign. The denoted decimal enters the parser's contract as ghost (universally quantified) variables; the two number parsers are used through assumed contracts over a numeral vocabulary (a text that is the decimal text of n behind leading zeros, or a sign and the decimal text of n, is a numeral of that value - the inverse of what strconv.AppendInt and big.Int.Append write). (3) Compose/Decompose and the byte conversions over the uninterpreted big-endian value beval. One open finding: Text('E'/'e') of a coefficient longer than 100001 digits does not parse back (known_findings.json). Value returns that text and Scan of a string or []byte holding it yields the decimal (type switch modelled by dynamic-type tags). Not decided: Text('f') numeric round trip for positive exponents, SetFloat64/Float64 and Scan(float64) (floats); the composition parse(format(d)) == d is two contracts whose conclusion and hypothesis match, not a single machine-checked lemma.",
         "7/C13", "contract postconditions with ghost variables and segment predicates over byte slices and strings (weakest-precondition VCs over go/ssa, z3 e-matching); assumed numeral contracts for strconv/math-big parsers"),
 'C14': ("The formatting half is decided for every decimal and every verb: Decimal.Append (and through it Text, String, MarshalText) is proved to produce exactly the bytes of a specification written from the property text - sign, NaN/sNaN/Infinity, plain notation iff exponent <= 0 and adjusted exponent >= -6 or a zero with exponent in [-2000,-1], otherwise one digit, optional fraction, E, a signed adjusted exponent; 'e'/'E' always scientific, 'f' always plain, unknown verbs as %x - over the decimal text of the coefficient and of the exponent (loop invariants for the zero padding, all buffer capacities, in place or reallocated). The digits themselves are math/big's and strconv's (assumed: uf_dchar(v, k) is the k-th character of the decimal text of v). Of the parsing half the acceptance direction is decided: every finite numeric string of the grammar (optional sign; digits with at most one point; optional e/E exponent with optional sign; any leading zeros) whose written exponent, fraction length and denoted value are within the limits is accepted with exactly the sign, coefficient and exponent it denotes (ghost description of the text; the number parsers through the assumed numeral vocabulary), as are inf/infinity/nan/snan in any mixture of cases with an optional sign and (for the NaNs) an optional payload below 2^64 (open finding: larger payloads are rejected). Format (and writeMultiple) are proved against a ghost log of the fmt.State: the Text form under the verb (F as f, v and s as G), a sign character for negative values or under the + and space flags, and when a width is given the padding - spaces on the right under '-', else zeros between sign and digits under '0' for finite values, else spaces on the left ('-' overrides '0' as in fmt: the unchanged code failed that clause, fix 6882ed1). Fourteen classes of rejection are proved, most through a ghost position of the offending byte: an ASCII text containing a character that is no digit, sign, point or letter; an ASCII text that starts like a number and contains a letter other than e/E; nan or snan followed by anything but digits (this clause failed on the unchanged tree: nansnan was accepted, fix 8ee1b66); an ASCII word that is neither inf/infinity nor starts with nan/snan; and with a second ghost position: two points, two exponent letters, a sign that is neither first nor right after the exponent letter, the empty text, an empty exponent, a text without any digit that is no special value, no digit before the exponent letter, a sign at the very end, a point after the exponent letter (that every ASCII text outside the grammar is in one of the classes is an argument on paper, cross-checked exhaustively - bounded - on all 10.4 million texts over a 13-letter alphabet up to length 6) (numeral elimination axiom; ParseInt and BigInt.SetString assumed to accept base-10 numerals only). Acceptance and rejection clauses are lifted to Context.SetString, Decimal.SetString, NewFromString, Context.NewFromString (a rejected text returns no decimal and no condition; an error is either that or a trap of the returned condition), UnmarshalText and Scan of strings and byte slices. NOT decided: that everything else outside the grammar is rejected (non-ASCII, misplaced signs/points/e's), grammatical texts the formatter never writes, 'no partial value', unknown verbs under Format (fmt.Fprintf); about arbitrary texts only: a successful parse is well formed, the mantissa carries no second sign, the digit count handed to setExponent is the coefficient's.",
         "7/C14", "byte-level contracts with segment predicates (quantified array facts with explicit triggers) over go/ssa VCs, z3 e-matching"),
 'C15': ("Decimal.Cmp equals the sign of the exact difference on all three code paths (equal exponents, digit-count shortcut, rescaled comparison); CmpTotal against a lexicographic specification; order lemmas over the specification (reflexive, antisymmetric, transitive via a magnitude-rescaling lemma, class order, zero iff identical).",
         "7/C15", "contract postconditions with pow10 lemma hints; order lemmas as pure SMT goals"),
 'C16': ("Layer 1: the inline fast paths of the BigInt methods proved against value/sign/representation contracts (zero is never negative) with exact wrap-around semantics; slow paths and the thin wrappers (bitwise, shifts, Div/Mod/DivMod, GCD, ModInverse, Exp, Sqrt ...) against assumed math/big contracts (uninterpreted operation functions, header-aliasing and negative-zero ghosts) and the unsafe-bridge contracts, the latter exercised by a bounded differential check on every run.",
         "7/C16", "contracts over the concrete representation (two machine words + handle) with 64-bit wrap modelled exactly"),
 'C17': ("Modf functional contract (integ+frac == d, exponent signs, either output nil, outputs may alias the receiver), Int64 with the wrapped cast proved correct, SetInt64/New/SetFinite exact. Float64 as plumbing: the result is what strconv.ParseFloat returns for the specified scientific string of d, on every path (that this is the nearest float64 is strconv's; floats are not modelled). SetFloat64's shortest-decimal claim is not decided.",
         "7/C17", "contract postconditions incl. loop invariant for the x10 loop"),
 'C18': ("The sequential frame conditions from which data-race freedom follows: Context methods and read-only Decimal methods write only their destination and fresh memory, every store instruction and every callee effect is proved to hit fresh memory or the function's assigns set (so not even a write that is undone before returning touches the Context, an operand or a shared table), no function under contract assigns a package-level variable (every written reference must be `writable`, i.e. outside the global region); schedules are not explored (stated meta-theorem).",
         "7/C18", "frame obligations (class F); schedule quantifier by meta-theorem"),
 'C19': ("NumDigits equals the decimal digit count for both signs (table invariant for <=128 bits, one assumed float lemma above); Reduce preserves the value, strips every trailing zero and reports a count that depends on the operand only.",
         "7/C19", "contract postconditions, table invariants, loop invariants"),
 'C20': ("The eight round* functions equal the GDA increment rule; call sites pass the sign of the exact result; bracketing/mirroring/coincidence lemmas over the oracle.",
         "7/C20", "contracts of the rounding functions plus lemmas over the oracle"),
}

def main():
    claimed = sys.argv[1:]
    props = [json.loads(l)['id'] for l in open('/verif/properties.jsonl')]
    checks = []
    na = []
    for p in props:
        if p in claimed:
            text, ref, tech = CLAIMS[p]
            checks.append({
                "property_id": p,
                "quick_cmd": f"bin/apdvc check {p} --tier quick",
                "thorough_cmd": f"bin/apdvc check {p} --tier thorough",
                "evidence_file": f"evidence/{p}.json",
                "replay_cmd_template": "bin/apdvc replay {path}",
                "engine": "apdvc",
                "level_claimed": {"category": "proof", "text": text, "design_ref": ref},
                "level_note": TRUST,
                "technique": tech,
            })
        else:
            na.append({"property_id": p, "reason": NA.get(p, "check not built yet: no obligations of this property are generated so far (engine under construction)")})
    hooks = []
    try:
        import subprocess
        out = subprocess.run(['git', '-C', '/repo', 'log', '--format=%H %s'], capture_output=True, text=True).stdout
        hooks = [l.split()[0] for l in out.splitlines() if l.split(' ', 1)[1].startswith('verif:')]
    except Exception:
        pass
    m = {
        "version": 1,
        "setup_cmd": f"cd engine && {ENV} go build -o ../bin/apdvc .",
        "hooks": {
            "guard": "verif",
            "enable": "go build -tags verif: adds only /repo/verif_contracts.go, a comment-only file holding the contracts",
            "baseline_off_cmd": f"cd /repo && {ENV} go test -vet=off -count=1 -timeout 25m ./...",
            "source_commits": hooks,
            "add_only": True,
        },
        "engines": [{"name": "apdvc", "path": "engine", "serves_properties": claimed,
                     "kind_free_text": "contract-based deductive verifier for Go written for this task: VC generation over go/ssa, contracts as //@ comments, z3/cvc5 back ends"}],
        "checks": checks,
        "not_applicable": na,
        "notes": "Contract-based deductive verification of the real code; see DESIGN.md. Checks rebuild SSA from /repo's working tree on every run.",
    }
    json.dump(m, open('/verif/MANIFEST.json', 'w'), indent=1)
    print('claimed', claimed, 'na', [x['property_id'] for x in na])

main()
