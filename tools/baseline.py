#!/usr/bin/env python3
"""Run the repository test-suite (guard off) and compare with BASELINE.json's stable_pass."""
import json, subprocess, sys, os
repo = sys.argv[1] if len(sys.argv) > 1 else '/repo'
env = dict(os.environ, GOFLAGS='-mod=mod', GOPROXY='off', GOSUMDB='off', GOTOOLCHAIN='local')
p = subprocess.run(['go', 'test', '-json', '-vet=off', '-count=1', '-timeout', '25m', './...'], cwd=repo, env=env, capture_output=True, text=True)
passed = set()
failed = set()
for line in p.stdout.splitlines():
    try:
        ev = json.loads(line)
    except Exception:
        continue
    if 'Test' not in ev:
        continue
    name = ev['Package'] + '::' + ev['Test']
    if ev.get('Action') == 'pass':
        passed.add(name)
    elif ev.get('Action') == 'fail':
        failed.add(name)
base = json.load(open('/root/.vp/BASELINE.json'))
stable = set(base['stable_pass'])
missing = sorted(stable - passed)
print(f'passed={len(passed)} failed={len(failed)} stable_pass={len(stable)} stable_now_not_passing={len(missing)}')
for m in missing[:40]:
    print('  NOT PASSING:', m)
sys.exit(1 if missing else 0)
