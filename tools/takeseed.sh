#!/bin/bash
# usage: takeseed.sh <seed-id> <property> : copies a sub-agent's deliverables from /tmp/wt<seed-id>/_seed to /verif/seeded/<seed-id>
# and evaluates it with seed.sh (demo passes without / fails with the change, baseline unchanged, registered quick check on /repo).
ID=$1; PROP=$2
mkdir -p /verif/seeded/$ID && cp /tmp/wt$ID/_seed/{patch.diff,demo_test.go,meta.json} /verif/seeded/$ID/ || exit 2
/verif/tools/seed.sh $ID $PROP 2>&1 | cut -c1-260
