#!/bin/bash
# Reverts every repaired defect (known_findings.json, status fixed) in a scratch copy of /repo and runs the quick check of the
# property it is filed under: each must raise a VIOLATION again. Prints one line per finding.
export GOFLAGS=-mod=mod GOPROXY=off GOSUMDB=off GOTOOLCHAIN=local
OUT=$(mktemp -d /tmp/canoutXXXX)
cp /verif/known_findings.json $OUT/
python3 - <<'PY' > $OUT/list.txt
import json
for f in json.load(open('/verif/known_findings.json'))['findings']:
    if f['status']=='fixed': print(f['commit'], f['property'])
PY
while read C P; do
  T=$(mktemp -d /tmp/canXXXX)
  cp -r /repo/. $T/
  if ! git -C $T revert --no-edit --no-commit $C >/dev/null 2>&1; then
    echo "$C $P REVERT-CONFLICT (later changes touch the same lines)"; rm -rf $T; continue
  fi
  if ! (cd $T && go build ./... >/dev/null 2>&1); then
    echo "$C $P REVERT-DOES-NOT-BUILD (a later fix builds on this one)"; rm -rf $T; continue
  fi
  RES=$(APDVC_REPO=$T APDVC_VERIF=$OUT /verif/bin/apdvc check $P --tier quick 2>&1 | grep '^VIOLATION' | head -2 | sed 's/replay=[^ ]* //' | cut -c1-160 | tr '\n' ';')
  [ -z "$RES" ] && RES="MISSED"
  echo "$C $P $RES"
  rm -rf $T
done < $OUT/list.txt
rm -rf $OUT
