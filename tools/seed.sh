#!/bin/bash
# usage: seed.sh <seed-dir-name> <property> [more properties to check...]
# Verifies a seeded change (/verif/seeded/<name>/patch.diff + demo_test.go) in a scratch worktree, then applies it to /repo,
# runs the registered quick checks of the given properties, and restores /repo.
set -u
if [ -n "$(git -C /repo status --porcelain)" ]; then echo "/repo has uncommitted changes: commit them first (this script restores /repo with git checkout)"; exit 9; fi
NAME=$1; shift
S=/verif/seeded/$NAME
export GOFLAGS=-mod=mod GOPROXY=off GOSUMDB=off GOTOOLCHAIN=local
WT=$(mktemp -d /tmp/seedwtXXXX); rmdir $WT
git -C /repo worktree add --detach $WT HEAD -q || exit 2
# evidence/ is rewritten by every check; what a run against a seeded tree writes must not be left behind (or committed)
cleanup() { git -C /repo worktree remove --force $WT 2>/dev/null; git -C /repo checkout -- . 2>/dev/null; git -C /verif checkout -- evidence 2>/dev/null; }
trap cleanup EXIT
cd $WT
cp $S/demo_test.go zz_seed_demo_test.go
echo "== demo on unchanged code (must pass)"
go test -vet=off -count=1 -run 'TestSeedDemo' . 2>&1 | tail -2
if ! git apply $S/patch.diff; then echo "PATCH DOES NOT APPLY"; exit 3; fi
echo "== build + demo with change (must fail)"
go build ./... || { echo BUILD FAILED; exit 4; }
go test -vet=off -count=1 -run 'TestSeedDemo' . 2>&1 | tail -3
rm zz_seed_demo_test.go
echo "== baseline with change"
python3 /verif/tools/baseline.py $WT | tail -3
cd /verif
git -C /repo apply $S/patch.diff || exit 5
for P in "$@"; do
  echo "== check $P on /repo with the change"
  bin/apdvc check $P --tier quick 2>&1 | grep -v '^KNOWN' | tail -6 | cut -c1-220
done
git -C /repo checkout -- .
