package main

import (
	"fmt"
	"go/types"
	"os"
	"sort"
	"strconv"
	"strings"
	"sync"

	"golang.org/x/tools/go/packages"
	"golang.org/x/tools/go/ssa"
	"golang.org/x/tools/go/ssa/ssautil"
)

type GlobalInfo struct {
	Name        string
	Addr        int64
	Type        types.Type
	Pointee     int64 // address of the pointee object when the variable is a pointer
	PointeeType types.Type
	ElemSize    int64
	IsArray     bool
}

type World struct {
	pkg      *packages.Package
	prog     *ssa.Program
	spkg     *ssa.Package
	spec     *Spec
	globals  map[string]*GlobalInfo
	gorder   []*GlobalInfo
	strCodes map[string]int64
	mu       sync.Mutex
	bigPkg   *types.Package
	repoDir  string
	funcs    map[string]*ssa.Function // contract name -> function
}

func LoadWorld(repo string) (*World, error) {
	cfg := &packages.Config{Mode: packages.LoadAllSyntax, Dir: repo, BuildFlags: []string{"-tags=verif"},
		Env: append(os.Environ(), "GOFLAGS=-mod=mod", "GOPROXY=off", "GOSUMDB=off", "GOTOOLCHAIN=local")}
	pkgs, err := packages.Load(cfg, ".")
	if err != nil {
		return nil, err
	}
	if len(pkgs) != 1 {
		return nil, fmt.Errorf("expected one package, got %d", len(pkgs))
	}
	if len(pkgs[0].Errors) > 0 {
		return nil, fmt.Errorf("package errors: %v", pkgs[0].Errors)
	}
	prog, spkgs := ssautil.AllPackages(pkgs, ssa.GlobalDebug|ssa.BareInits)
	prog.Build()
	W := &World{pkg: pkgs[0], prog: prog, spkg: spkgs[0], globals: map[string]*GlobalInfo{}, strCodes: map[string]int64{"": 0}, repoDir: repo, funcs: map[string]*ssa.Function{}}
	for _, imp := range pkgs[0].Imports {
		if imp.PkgPath == "math/big" {
			W.bigPkg = imp.Types
		}
	}
	sp, err := ParseSpecFile(repo + "/verif_contracts.go")
	if err != nil {
		return nil, err
	}
	W.spec = sp
	W.assignGlobals()
	W.indexFuncs()
	return W, nil
}

func (W *World) mathBigIntType() types.Type {
	return W.bigPkg.Scope().Lookup("Int").Type()
}

// strOfCode: the constant string with this code, if it is one
func (W *World) strOfCode(c int64) (string, bool) {
	W.mu.Lock()
	defer W.mu.Unlock()
	for s, v := range W.strCodes {
		if v == c {
			return s, true
		}
	}
	return "", false
}

func (W *World) strCode(s string) int64 {
	W.mu.Lock()
	defer W.mu.Unlock()
	if c, ok := W.strCodes[s]; ok {
		return c
	}
	// codes must not depend on discovery order: derive from the string itself
	// (FNV-1a folded to 40 bits, offset so they are distinct from small ints)
	var h uint64 = 14695981039346656037
	for i := 0; i < len(s); i++ {
		h ^= uint64(s[i])
		h *= 1099511628211
	}
	c := int64(h&((1<<40)-1)) + (1 << 41)
	for _, v := range W.strCodes {
		if v == c {
			panic("string code collision")
		}
	}
	W.strCodes[s] = c
	return c
}

// assignGlobals gives every package-level variable a concrete address in the
// global region [16, GEND).
func (W *World) assignGlobals() {
	L := &Layout{}
	scope := W.pkg.Types.Scope()
	names := scope.Names()
	sort.Strings(names)
	addr := int64(64)
	for _, n := range names {
		v, ok := scope.Lookup(n).(*types.Var)
		if !ok {
			continue
		}
		gi := &GlobalInfo{Name: n, Addr: addr, Type: v.Type()}
		addr += L.sizeOf(v.Type()) + 8
		if p, ok := v.Type().Underlying().(*types.Pointer); ok {
			gi.Pointee = addr
			gi.PointeeType = p.Elem()
			addr += L.sizeOf(p.Elem()) + 8
		}
		if a, ok := v.Type().Underlying().(*types.Array); ok {
			gi.IsArray = true
			gi.ElemSize = L.sizeOf(a.Elem())
		}
		W.globals[n] = gi
		W.gorder = append(W.gorder, gi)
		if n == "negSentinel" {
			negSentinelAddr = gi.Pointee
		}
	}
	if addr >= GEND {
		panic("global region overflow")
	}
}

func (W *World) globalByAddr(t Term) *GlobalInfo {
	n, err := strconv.ParseInt(t.S, 10, 64)
	if err != nil {
		return nil
	}
	for _, gi := range W.gorder {
		if gi.Addr == n || (gi.Pointee != 0 && gi.Pointee == n) {
			return gi
		}
	}
	return nil
}

// contractName renders an ssa function the way contracts name it.
func contractName(fn *ssa.Function) string {
	if fn.Pkg == nil && fn.Object() == nil {
		return fn.Name()
	}
	name := fn.Name()
	pkgPath := ""
	if fn.Object() != nil && fn.Object().Pkg() != nil {
		pkgPath = fn.Object().Pkg().Path()
	}
	local := strings.HasSuffix(pkgPath, "apd/v3")
	sig := fn.Signature
	if recv := sig.Recv(); recv != nil {
		rt := recv.Type()
		ptr := ""
		if p, ok := rt.(*types.Pointer); ok {
			rt = p.Elem()
			ptr = "*"
		}
		tn := rt.String()
		if n, ok := rt.(*types.Named); ok {
			tn = n.Obj().Name()
		}
		if ptr != "" {
			name = "(*" + tn + ")." + name
		} else {
			name = tn + "." + name
		}
	}
	if !local && pkgPath != "" {
		return pkgPath + "." + name
	}
	return name
}

func (W *World) indexFuncs() {
	for fn := range ssautil.AllFunctions(W.prog) {
		if fn.Synthetic != "" && !strings.HasPrefix(fn.Synthetic, "package initializer") {
			continue
		}
		n := contractName(fn)
		if fn.Pkg == W.spkg || W.spec.Funcs[n] != nil {
			if fn.Parent() != nil {
				continue
			}
			W.funcs[n] = fn
		}
	}
}

// Gen is the common generator context: SMT context + world + layout.
type Gen struct {
	*Ctx
	W           *World
	L           *Layout
	entry       *State
	touched     map[string]bool // global facts already emitted: name@arrayversion
	inElemInv   map[int]bool    // element invariants currently being instantiated (no nested instantiation of the same one)
	keys        map[string]Sort // heap keys used
	reveal      map[string]bool // opaque macros expanded in this context
	noSideFacts bool
}

func newGen(W *World, layer1 bool) *Gen {
	g := &Gen{Ctx: newCtx(), W: W, L: &Layout{layer1: layer1}, touched: map[string]bool{}, keys: map[string]Sort{}}
	g.entry = &State{heap: map[string]Term{}, cnt: g.named("cnt0", SInt)}
	g.assume(Ge(g.entry.cnt, IntLit(GEND)))
	return g
}

func (g *Gen) arr(st *State, key string, s Sort) Term {
	if old, ok := g.keys[key]; ok && old != s {
		panic(fmt.Sprintf("heap key %s used at sorts %v and %v", key, old, s))
	}
	g.keys[key] = s
	if a, ok := st.heap[key]; ok {
		return a
	}
	name := "H0_" + sanitize(key)
	g.declare(name, s.ArraySMT())
	return Term{name, s}
}

func (g *Gen) load(st *State, key string, idx Term, s Sort) Term {
	return Select(g.arr(st, key, s), idx, s)
}

func (g *Gen) store(st *State, key string, idx Term, v Term) {
	a := g.arr(st, key, v.Sort)
	n := g.freshArray("H_"+key, v.Sort)
	g.assume(Term{"(= " + n.S + " (store " + a.S + " " + idx.S + " " + v.S + "))", SBool})
	st.heap[key] = n
}

// havocLeaf overwrites one location with an unconstrained value and returns it.
func (g *Gen) havocLeaf(st *State, key string, idx Term, s Sort, hint string) Term {
	v := g.fresh(hint, s)
	g.store(st, key, idx, v)
	return v
}

// touchGlobal emits the invariants of a package-level variable for state st.
func (g *Gen) touchGlobal(gi *GlobalInfo, st *State) {
	for n, inv := range g.W.spec.Globals {
		if inv.Global != gi.Name || inv.Var != "" {
			continue
		}
		g.emitGlobalInv(n, inv, st, nil)
	}
}

func (g *Gen) touchGlobalElem(gi *GlobalInfo, st *State, idx Term) {
	g.touchGlobal(gi, st)
	for n, inv := range g.W.spec.Globals {
		if inv.Global != gi.Name || inv.Var == "" {
			continue
		}
		g.emitGlobalInv(n, inv, st, &idx)
	}
}

func (g *Gen) emitGlobalInv(n int, inv *GlobalInv, st *State, idx *Term) {
	// the invariant is re-assumed for the heap version current at the point of use;
	// justified because no verified function writes the global region (class F1).
	sig := fmt.Sprintf("%d", n)
	if idx != nil {
		sig += "@" + idx.S
	}
	// identify the state by the versions of all arrays (cheap: pointer identity of map + len)
	sig += "#" + stateSig(st)
	if g.touched[sig] {
		return
	}
	if idx != nil && g.inElemInv[n] {
		// the element invariant mentions another element of the same table (t[i] <= t[i+1]): do not instantiate it
		// again for that element, or the chain never ends. Fewer facts, never wrong ones.
		return
	}
	g.touched[sig] = true
	env := &Env{g: g, cur: st, old: nil, vars: map[string]SVal{}}
	if idx != nil {
		env.vars[inv.Var] = iv(*idx)
		if g.inElemInv == nil {
			g.inElemInv = map[int]bool{}
		}
		g.inElemInv[n] = true
		defer func() { g.inElemInv[n] = false }()
	}
	g.assume(env.boolean(inv.E))
}

func stateSig(st *State) string {
	var sb strings.Builder
	for _, k := range sortedKeys(st.heap) {
		sb.WriteString(k)
		sb.WriteString("=")
		sb.WriteString(st.heap[k].S)
		sb.WriteString(";")
	}
	return sb.String()
}
