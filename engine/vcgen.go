package main

import (
	"fmt"
	"go/constant"
	"go/token"
	"go/types"
	"math/big"
	"os"
	"path/filepath"
	"regexp"
	"sort"
	"strconv"
	"strings"

	"golang.org/x/tools/go/ssa"
)

// Loc is a pointer to one scalar location.
type Loc struct {
	Key   string
	Idx   Term
	Sort  Sort
	Type  types.Type
	Slice *types.Slice // non-nil: the location is a slice-typed struct field (Key is the field key prefix)
}

// Val is the engine-side value of an SSA value.
type Val struct {
	T      Term   // scalar
	Loc    *Loc   // pointer to scalar
	Elems  []*Val // tuple, or slice header {ptr,len}
	Flat   []Term // aggregate value (struct/array) as flattened leaves
	Kind   valKind
	GoType types.Type
}

type valKind int

const (
	vScalar valKind = iota
	vLoc
	vTuple
	vSlice
	vAgg
)

type Obligation struct {
	Extra     []string // goal-local definitions (not visible to later obligations)
	Level     int      // lemma instantiation level for the next query (0 = default)
	LevelUsed int
	Name      string
	Fn        string
	Class     string // S, F, T, R, L, G, V(acuity)
	Tags      []string
	Ghost     bool // the clause mentions a ghost variable of the contract
	Guard     Term
	Goal      Term
	NFacts    int
	NDecls    int
	Pos       string
	ExpectSat bool // vacuity guard: the query must be satisfiable
	Src       string
	gen       *Gen
	// results
	Status  string // proved, failed, unknown, timeout, error
	Backend string
	Time    float64
	Output  string
}

type callRec struct {
	name   string
	reach  Term
	inLoop bool
}

type writeRec struct {
	key string
	idx string
	s   Sort
	chk bool // the write went through checkWrite / checkRegionWrite (it carries a write obligation in the real pass)
}

type FuncVC struct {
	*Gen
	fn           *ssa.Function
	fc           *FuncContract
	name         string
	vals         map[ssa.Value]*Val
	reach        map[*ssa.BasicBlock]Term
	out          map[*ssa.BasicBlock]*State
	edges        map[[2]int]Term
	obls         []*Obligation
	params       map[string]SVal
	callOrd      map[string]int
	unsup        []string
	libResults   map[string]libResult
	Stale        []string          // clauses for loops or returns the function no longer has (dropped; reported as a contract problem)
	noTerm       []string          // loops with neither a measure nor an error-exit obligation
	skipped      []string          // ensures clauses not checked at a return because they name a local that does not exist there
	defKeys      map[string]bool   // heap keys that carry a definedness ghost (leaves of the outs parameters)
	assignLeaves map[string][]Term // the function's own assigns clause, resolved at entry
	dirtyKeys    map[string]bool   // heap keys that carry a written-since-entry ghost (leaves of the pure operands)
	staleOps     map[string]bool   // pointer parameters that are operands only (neither outs nor assigned)
	prov         map[ssa.Value]map[string]bool
	readRoots    map[string]bool // operand parameters the pointer of the load being executed derives from
	nonnil       map[ssa.Value]bool
	writes       []writeRec
	retOrd       int
	retNum       map[*ssa.Return]int
	loopOrd      map[*ssa.BasicBlock]int
	loopBody     map[*ssa.BasicBlock]map[*ssa.BasicBlock]bool
	backEdge     map[[2]int]bool
	headerSt     map[*ssa.BasicBlock]*loopHead
	uncontracted map[string]bool
	trustedUsed  map[string]bool
	// contractedUsed: callees under a (non-trusted) contract that this function is verified against;
	// lemmasUsed: lemmas instantiated in its obligations. Both feed the dependency closure of a property check.
	contractedUsed map[string]bool
	// by-value copies of a BigInt (bigint-copy obligations) and everything that could make the sharing between the
	// copy and its source observable: writes to any BigInt other than the copy itself, whole-heap havoc, constructs
	// outside the subset, interface calls, non-scalar values wrapped in interfaces. Decided at the end of Generate.
	assignRegions     []region
	assignRegionsDone bool
	// callLog: every call under contract in the real pass (callee, reach condition, whether the site is inside a loop)
	callLog     []callRec
	bigCopyObls []*Obligation
	bigWrites   int
	inBigCopy   bool
	lemmasUsed  map[string]bool
	discovery   int
	ordCount    map[string]int
	localDone   map[string]bool
	assertsSeen map[string]bool
	allocs      map[string]*Val            // address-taken locals by source name
	defBlock    map[string]*ssa.BasicBlock // block in which a named local was (last) bound
	curBlock    *ssa.BasicBlock
	curPos      token.Pos
	localNames  map[string]bool
	dcalls      []*delegCall
	sites       []string
	siteOrd     map[*ssa.Call]int    // ordinal of a call among the calls to the same callee, in source order
	debugVals   map[string]SVal      // most recent value bound to a source-level local (go/ssa debug info)
	bindings    map[string][]binding // all bindings of source-level locals, by defining block
}

type loopHead struct {
	st      *State
	phis    map[string]SVal // source name -> value at the header
	lets    map[string]SVal // ghost constants: values of expressions at the header
	measure Term
	hasMeas bool
}

func (vc *FuncVC) unsupported(format string, args ...interface{}) {
	vc.bigWrites++
	vc.unsup = append(vc.unsup, fmt.Sprintf(format, args...))
}

func (vc *FuncVC) pos(p token.Pos) string {
	if !p.IsValid() {
		return ""
	}
	pp := vc.W.prog.Fset.Position(p)
	f := pp.Filename
	if i := strings.LastIndex(f, "/"); i >= 0 {
		f = f[i+1:]
	}
	return fmt.Sprintf("%s:%d", f, pp.Line)
}

func (vc *FuncVC) ord(kind string) int {
	vc.ordCount[kind]++
	return vc.ordCount[kind]
}

func (vc *FuncVC) oblige(class, detail string, guard, goal Term, tags []string, pos token.Pos, src string) *Obligation {
	if vc.discovery > 0 {
		return nil
	}
	o := &Obligation{Name: vc.name + "/" + detail, Fn: vc.name, Class: class, Tags: tags, Guard: guard, Goal: goal,
		NFacts: len(vc.facts), NDecls: len(vc.decls), Pos: vc.pos(pos), Src: src, gen: vc.Gen}
	for _, g := range vc.fc.Ghosts {
		if regexp.MustCompile(`\b` + regexp.QuoteMeta(g.Name) + `\b`).MatchString(src) {
			o.Ghost = true
		}
	}
	vc.obls = append(vc.obls, o)
	return o
}

func (vc *FuncVC) propTags(extra ...string) []string {
	m := map[string]bool{}
	for _, t := range vc.fc.Props {
		m[t] = true
	}
	for _, t := range extra {
		m[t] = true
	}
	var out []string
	for t := range m {
		out = append(out, t)
	}
	sort.Strings(out)
	return out
}

// ---------------------------------------------------------------- values

// freshCap: the capacity of a slice whose length is ln is only known to be at least ln.
func (vc *FuncVC) freshCap(ln Term) *Val {
	c := vc.fresh("cap", SInt)
	vc.assume(And(Ge(c, ln), Lt(c, BigLit(pow2big(62)))))
	return &Val{T: c}
}

// capOf: the capacity component of a slice value.
func (vc *FuncVC) capOf(v *Val) Term {
	if len(v.Elems) < 3 {
		v.Elems = append(v.Elems, vc.freshCap(v.Elems[1].T))
	}
	return v.Elems[2].T
}

func (vc *FuncVC) zeroVal(t types.Type) *Val {
	if sl, ok := t.Underlying().(*types.Slice); ok {
		_ = sl
		return &Val{Kind: vSlice, Elems: []*Val{{T: IntLit(0)}, {T: IntLit(0)}, {T: IntLit(0)}}, GoType: t}
	}
	if s, ok := scalarSort(t); ok {
		switch s {
		case SBool:
			return &Val{T: TFalse, GoType: t}
		case SBV:
			return &Val{T: BVLit(0), GoType: t}
		}
		return &Val{T: IntLit(0), GoType: t}
	}
	var flat []Term
	for _, lf := range vc.L.leaves(t, 0, "") {
		switch lf.Sort {
		case SBool:
			flat = append(flat, TFalse)
		case SBV:
			flat = append(flat, BVLit(0))
		default:
			flat = append(flat, IntLit(0))
		}
	}
	return &Val{Kind: vAgg, Flat: flat, GoType: t}
}

func (vc *FuncVC) freshVal(hint string, t types.Type) *Val {
	if tup, ok := t.(*types.Tuple); ok {
		v := &Val{Kind: vTuple, GoType: t}
		for i := 0; i < tup.Len(); i++ {
			v.Elems = append(v.Elems, vc.freshVal(fmt.Sprintf("%s_%d", hint, i), tup.At(i).Type()))
		}
		return v
	}
	if _, ok := t.Underlying().(*types.Slice); ok {
		p := vc.fresh(hint+"_ptr", SInt)
		l := vc.fresh(hint+"_len", SInt)
		vc.assume(And(Ge(l, IntLit(0)), Ge(p, IntLit(0))))
		return &Val{Kind: vSlice, Elems: []*Val{{T: p}, {T: l}, vc.freshCap(l)}, GoType: t}
	}
	if s, ok := scalarSort(t); ok {
		if p, isPtr := t.Underlying().(*types.Pointer); isPtr {
			if es, sc := scalarSort(p.Elem()); sc {
				a := vc.fresh(hint, SInt)
				vc.assume(Ge(a, IntLit(0)))
				return &Val{Kind: vLoc, Loc: &Loc{Key: cellKey(p.Elem()), Idx: a, Sort: es, Type: p.Elem()}, T: a, GoType: t}
			}
		}
		c := vc.fresh(hint, s)
		vc.assume(rangeFact(c, t))
		if _, isPtr := t.Underlying().(*types.Pointer); isPtr {
			vc.assume(Ge(c, IntLit(0)))
		}
		return &Val{T: c, GoType: t}
	}
	v := &Val{Kind: vAgg, GoType: t}
	for i, lf := range vc.L.leaves(t, 0, "") {
		c := vc.fresh(fmt.Sprintf("%s_%d", hint, i), lf.Sort)
		if lf.Type != nil {
			vc.assume(rangeFact(c, lf.Type))
		}
		v.Flat = append(v.Flat, c)
	}
	return v
}

func (vc *FuncVC) constVal(c *ssa.Const) *Val {
	t := c.Type()
	if c.Value == nil {
		return vc.zeroVal(t)
	}
	switch c.Value.Kind() {
	case constant.Bool:
		return &Val{T: BoolLit(constant.BoolVal(c.Value)), GoType: t}
	case constant.String:
		code := IntLit(vc.W.strCode(constant.StringVal(c.Value)))
		vc.assume(Eq(vc.strLen(code), IntLit(int64(len(constant.StringVal(c.Value))))))
		if sv := constant.StringVal(c.Value); len(sv) <= 32 && !vc.declared["strconst:"+sv] {
			vc.declared["strconst:"+sv] = true
			for k := 0; k < len(sv); k++ {
				vc.assume(Eq(vc.strByte(code, IntLit(int64(k))), IntLit(int64(sv[k]))))
			}
		}
		return &Val{T: code, GoType: t}
	case constant.Int:
		n, _ := new(big.Int).SetString(c.Value.ExactString(), 10)
		if isCondition(t) {
			return &Val{T: BVLit(uint32(n.Uint64())), GoType: t}
		}
		if b, ok := t.Underlying().(*types.Basic); ok && b.Info()&types.IsFloat != 0 {
			return &Val{T: vc.fresh("fconst", SInt), GoType: t}
		}
		return &Val{T: BigLit(n), GoType: t}
	case constant.Float, constant.Complex:
		return &Val{T: vc.fresh("fconst", SInt), GoType: t}
	}
	vc.unsupported("constant %v", c)
	return vc.freshVal("const", t)
}

func (vc *FuncVC) val(v ssa.Value) *Val {
	if x, ok := vc.vals[v]; ok {
		return x
	}
	switch v := v.(type) {
	case *ssa.Const:
		return vc.constVal(v)
	case *ssa.Global:
		gi := vc.W.globals[v.Name()]
		if gi == nil {
			// global of another package (e.g. math/big internals): opaque
			x := vc.freshVal("extglobal_"+v.Name(), v.Type())
			vc.vals[v] = x
			return x
		}
		// address of the variable
		elem := v.Type().(*types.Pointer).Elem()
		if s, ok := scalarSort(elem); ok {
			return &Val{Kind: vLoc, Loc: &Loc{Key: "global." + gi.Name, Idx: IntLit(gi.Addr), Sort: s, Type: elem}, T: IntLit(gi.Addr), GoType: v.Type()}
		}
		return &Val{T: IntLit(gi.Addr), GoType: v.Type()}
	case *ssa.Function:
		return &Val{T: vc.fresh("func", SInt), GoType: v.Type()}
	case *ssa.Builtin:
		return &Val{T: IntLit(0), GoType: v.Type()}
	}
	vc.unsupported("value %T %s used before definition", v, v.Name())
	x := vc.freshVal("undef", v.Type())
	vc.vals[v] = x
	return x
}

func (vc *FuncVC) scalar(v ssa.Value) Term {
	x := vc.val(v)
	if x.Kind == vLoc {
		return x.Loc.Idx
	}
	if x.Kind != vScalar {
		vc.unsupported("aggregate used as scalar: %s", v.Name())
		s, _ := scalarSort(v.Type())
		return vc.fresh("agg", s)
	}
	return x.T
}

// toSVal converts an engine value to a spec value.
func (vc *FuncVC) toSVal(x *Val, t types.Type) SVal {
	switch x.Kind {
	case vScalar:
		return SVal{T: x.T, Ty: stypeOfGo(t)}
	case vLoc:
		return SVal{T: x.Loc.Idx, Ty: SType{K: KRef, Elem: x.Loc.Type}}
	case vSlice:
		sl := t.Underlying().(*types.Slice)
		return SVal{T: x.Elems[0].T, Len: x.Elems[1].T, Cap: vc.capOf(x), Ty: SType{K: KSlice, Elem: sl.Elem()}}
	case vAgg:
		return SVal{T: IntLit(0), Ty: SType{K: KStruct, Elem: t}, Flat: x.Flat}
	}
	return SVal{T: IntLit(0), Ty: SType{K: KInt}}
}

// ---------------------------------------------------------------- memory access

func (vc *FuncVC) logWrite(key string, idx Term, s Sort) {
	vc.writes = append(vc.writes, writeRec{key, idx.S, s, false})
}

// writeAllowed: the location key[idx] is fresh (allocated by this call) or listed in the function's assigns clause.
// Checked at every store and for everything a callee may assign: unlike the frame comparison at the returns it
// also rules out a write that is undone before returning (C18: a transient write to shared state is a race).
func (vc *FuncVC) writeAllowed(key string, idx Term) Term {
	if vc.assignLeaves == nil {
		vc.assignLeaves = map[string][]Term{}
		e0 := vc.env(vc.entry, nil)
		for _, ax := range vc.fc.Assigns {
			for _, lf := range vc.lvalue(e0, ax) {
				vc.assignLeaves[lf.Key] = append(vc.assignLeaves[lf.Key], lf.Idx)
			}
		}
	}
	// address 0 is nil: the leaves of a nil (optional) destination are a modelling artefact, nothing is written there
	g := Or(Ge(idx, vc.entry.cnt), Eq(idx, IntLit(0)))
	for _, a := range vc.assignLeaves[key] {
		g = Or(g, Eq(idx, a))
	}
	for _, r := range vc.entryRegions() {
		if r.Key == key {
			g = Or(g, r.contains(idx))
		}
	}
	return g
}

// frameFact: forall i. 0 < i < cnt0 and i outside the assigns set ==> arr[i] == entry[i]
func (vc *FuncVC) frameFact(key string, s Sort, arr Term) Term {
	vc.nfresh++
	q := fmt.Sprintf("fi_%d", vc.nfresh)
	i := Term{q, SInt}
	conds := []Term{Lt(IntLit(0), i), Lt(i, vc.entry.cnt)}
	vc.writeAllowed(key, IntLit(1)) // make sure assignLeaves is resolved
	for _, a := range vc.assignLeaves[key] {
		conds = append(conds, Ne(i, a))
	}
	for _, r := range vc.entryRegions() {
		if r.Key == key {
			conds = append(conds, Not(r.contains(i)))
		}
	}
	body := Implies(And(conds...), Eq(Select(arr, i, s), Select(vc.arr(vc.entry, key, s), i, s)))
	return Term{fmt.Sprintf("(forall ((%s Int)) (! %s :pattern (%s)))", q, body.S, Select(arr, i, s).S), SBool}
}

// checkRegionWrite: every cell of [lo, hi) is fresh or in the assigns set (a Skolem cell stands for all of them).
func (vc *FuncVC) checkRegionWrite(key string, lo, hi Term, what string) {
	if !vc.fc.HasAssigns || vc.discovery > 0 {
		return
	}
	sk := vc.fresh("rw", SInt)
	g := Implies(And(Le(lo, sk), Lt(sk, hi)), vc.writeAllowed(key, sk))
	vc.oblige("F", fmt.Sprintf("write/%s[..]#%d", key, vc.ord("write")), vc.reach[vc.curBlock], g, []string{"C06", "C18"}, vc.curPos, "only fresh memory and the assigns set are ever written: "+what)
}

// havocRegion: the cells [lo, hi) of key take unknown values (when cond holds), every other cell keeps its value.
func (vc *FuncVC) havocRegion(st *State, key string, s Sort, lo, hi, cond Term, hint string) Term {
	old := vc.arr(st, key, s)
	na := vc.freshArray(hint+"_"+key, s)
	vc.nfresh++
	q := fmt.Sprintf("ri_%d", vc.nfresh)
	i := Term{q, SInt}
	body := Implies(Not(And(cond, Le(lo, i), Lt(i, hi))), Eq(Select(na, i, s), Select(old, i, s)))
	vc.assume(Term{fmt.Sprintf("(forall ((%s Int)) (! %s :pattern (%s)))", q, body.S, Select(na, i, s).S), SBool})
	st.heap[key] = na
	vc.writes = append(vc.writes, writeRec{key, "*", s, true})
	return na
}

// entryRegions: the regions of the function's own assigns clause, resolved once in the entry state.
func (vc *FuncVC) entryRegions() []region {
	if vc.assignRegionsDone {
		return vc.assignRegions
	}
	vc.assignRegionsDone = true
	e0 := vc.env(vc.entry, nil)
	for _, ax := range vc.fc.Assigns {
		vc.assignRegions = append(vc.assignRegions, vc.regions(e0, ax)...)
	}
	return vc.assignRegions
}

func (vc *FuncVC) checkWrite(key string, idx Term, what string) {
	if key == "BigInt.val" && !vc.inBigCopy {
		vc.bigWrites++
	}
	if !vc.fc.HasAssigns || vc.discovery > 0 || strings.HasPrefix(key, "def.") || strings.HasPrefix(key, "State.") {
		return
	}
	g := vc.writeAllowed(key, idx)
	if g.S == "true" {
		return
	}
	vc.oblige("F", fmt.Sprintf("write/%s#%d", key, vc.ord("write")), vc.reach[vc.curBlock], g, []string{"C06", "C18"}, vc.curPos, "only fresh memory and the assigns set are ever written (no transient writes either): "+what)
}

func (vc *FuncVC) storeLeaf(st *State, key string, idx Term, v Term) {
	vc.checkWrite(key, idx, key)
	vc.logWrite(key, idx, v.Sort)
	vc.writes[len(vc.writes)-1].chk = true
	vc.store(st, key, idx, v)
	vc.markDef(st, key, idx, TTrue)
}

// ---------------------------------------------------------------- class D: destinations are defined before they are read
//
// For a function with an `outs d` clause the previous contents of *d are poison: every leaf of *d
// carries a ghost bit def.<key>[addr], false at entry unless d is also one of the operands of the
// same type, set by every store and by every callee that lists the location in its own outs/assigns.
// Each load of a leaf by the code (not by the specification) and each pointer handed to a callee in
// an operand position must find the bit set; at each return all leaves of *d must be set.
// Loop heads keep the bits they had on entry (bits only ever go from false to true, so this is sound).

func (vc *FuncVC) initDef() {
	if vc.L.layer1 || (len(vc.fc.Outs) == 0 && len(vc.fc.Reads) == 0 && len(vc.fc.OutFields) == 0) {
		return
	}
	vc.defKeys = map[string]bool{}
	type cell struct{ addr, flag Term }
	byKey := map[string][]cell{}
	var korder []string
	e0 := vc.env(vc.entry, nil)
	readSet, restricted := readsOf(vc.Gen, e0, vc.fc)
	// leaves of the operands that may be read: a destination leaf at the same address is not poison
	type opLeaf struct {
		key  string
		addr Term
	}
	var ops []opLeaf
	for _, q := range vc.fn.Params {
		qp, isPtr := q.Type().Underlying().(*types.Pointer)
		if !isPtr || isOut(vc.fc, q.Name()) {
			continue
		}
		if _, sc := scalarSort(qp.Elem()); sc {
			continue
		}
		qa := vc.params[q.Name()].T
		for _, lf := range vc.L.leaves(qp.Elem(), 0, "") {
			a := Add(qa, IntLit(lf.Off))
			if restricted[q.Name()] && !readSet[lf.Key+"@"+a.S] {
				continue
			}
			ops = append(ops, opLeaf{lf.Key, a})
		}
	}
	poison := func(name string, pv SVal, only func(key string, addr Term) bool) {
		for _, lf := range vc.L.leaves(pv.Ty.Elem, 0, "") {
			a := Add(pv.T, IntLit(lf.Off))
			if only != nil && !only(lf.Key, a) {
				continue
			}
			flag := Eq(pv.T, IntLit(0)) // a nil destination poisons nothing
			for _, o := range ops {
				if o.key == lf.Key && o.addr.S != a.S {
					flag = Or(flag, Eq(a, o.addr))
				}
			}
			if _, seen := byKey[lf.Key]; !seen {
				korder = append(korder, lf.Key)
			}
			byKey[lf.Key] = append(byKey[lf.Key], cell{a, flag})
		}
	}
	for _, name := range vc.fc.Outs {
		pv, ok := vc.params[name]
		if !ok || pv.Ty.K != KRef || pv.Ty.Elem == nil {
			panic("outs: " + name + " is not a pointer parameter")
		}
		poison(name, pv, nil)
	}
	for name := range restricted {
		pv := vc.params[name]
		poison(name, pv, func(key string, addr Term) bool { return !readSet[key+"@"+addr.S] })
	}
	for _, ox := range vc.fc.OutFields {
		for _, lf := range vc.lvalue(e0, ox) {
			if _, seen := byKey[lf.Key]; !seen {
				korder = append(korder, lf.Key)
				byKey[lf.Key] = nil
			}
		}
	}
	sort.Strings(korder)
	for _, key := range korder {
		vc.defKeys[key] = true
		expr := "((as const (Array Int Bool)) true)"
		for _, c := range byKey[key] {
			expr = "(store " + expr + " " + c.addr.S + " " + c.flag.S + ")"
		}
		d0 := vc.freshArray("D0_"+key, SBool)
		vc.assume(Term{"(= " + d0.S + " " + expr + ")", SBool})
		vc.keys["def."+key] = SBool
		vc.entry.heap["def."+key] = d0
	}
}

// readsOf resolves the reads clauses of a contract in environment e: the set of (key@address) leaves that
// may be read, and the parameters that carry such a restriction.
func readsOf(g *Gen, e *Env, fc *FuncContract) (map[string]bool, map[string]bool) {
	set := map[string]bool{}
	restricted := map[string]bool{}
	for _, rx := range fc.Reads {
		restricted[rootIdent(rx)] = true
		if id, ok := rx.(*EIdent); ok && id != nil {
			continue // "reads p" alone: nothing of *p is read
		}
		for _, lf := range g.lvalue(e, rx) {
			set[lf.Key+"@"+lf.Idx.S] = true
		}
	}
	return set, restricted
}

// ---------------------------------------------------------------- class D, second half: operands are not read once overwritten
//
// If a destination may alias an operand, the operand must be read before the destination is
// written: a read through a pointer that derives (statically, in SSA) from an operand parameter
// must return the value the leaf had at entry. In the call without aliasing that is what every
// operand read returns (frame), so together with the definedness half this gives, by lockstep
// simulation, that the aliased and the non-aliased call compute the same result.

func (vc *FuncVC) initStale() {
	if vc.L.layer1 || len(vc.fc.Outs) == 0 {
		return
	}
	assigned := map[string]bool{}
	for _, ax := range vc.fc.Assigns {
		assigned[rootIdent(ax)] = true
	}
	vc.staleOps = map[string]bool{}
	vc.dirtyKeys = map[string]bool{}
	vc.prov = map[ssa.Value]map[string]bool{}
	for _, q := range vc.fn.Params {
		qp, isPtr := q.Type().Underlying().(*types.Pointer)
		if !isPtr || isOut(vc.fc, q.Name()) || assigned[q.Name()] {
			continue
		}
		if _, sc := scalarSort(qp.Elem()); sc {
			continue
		}
		vc.staleOps[q.Name()] = true
		for _, lf := range vc.L.leaves(qp.Elem(), 0, "") {
			vc.dirtyKeys[lf.Key] = true
		}
	}
}

// roots: the operand parameters an SSA pointer value statically derives from.
func (vc *FuncVC) roots(v ssa.Value) map[string]bool {
	if r, ok := vc.prov[v]; ok {
		return r
	}
	r := map[string]bool{}
	vc.prov[v] = r // cuts cycles through phis
	add := func(x ssa.Value) {
		for k := range vc.roots(x) {
			r[k] = true
		}
	}
	switch x := v.(type) {
	case *ssa.Parameter:
		if vc.staleOps[x.Name()] {
			r[x.Name()] = true
		}
	case *ssa.FieldAddr:
		add(x.X)
	case *ssa.IndexAddr:
		add(x.X)
	case *ssa.Phi:
		for _, e := range x.Edges {
			add(e)
		}
	case *ssa.ChangeType:
		add(x.X)
	case *ssa.Convert:
		add(x.X)
	case *ssa.Extract:
		add(x.Tuple)
	case *ssa.Call:
		// a pointer result may point into any operand handed to the callee (unless the callee returns fresh memory)
		if callee := x.Common().StaticCallee(); callee != nil {
			if fc := vc.W.spec.Funcs[contractName(callee)]; fc != nil && fc.Fresh {
				break
			}
		}
		for _, a := range x.Common().Args {
			if _, isPtr := a.Type().Underlying().(*types.Pointer); isPtr {
				add(a)
			}
		}
	}
	return r
}

// staleCheck: the code reads leaf key[idx] through a pointer derived from an operand.
func (vc *FuncVC) staleCheck(st *State, key string, idx Term) {
	if vc.dirtyKeys == nil || !vc.dirtyKeys[key] || vc.discovery > 0 || len(vc.readRoots) == 0 {
		return
	}
	s := vc.keys[key]
	vc.oblige("D", fmt.Sprintf("unmodified/%s#%d", key, vc.ord("unmodified")), vc.reach[vc.curBlock], Implies(vc.inOperand(vc.readRoots, idx), Eq(vc.load(st, key, idx, s), vc.load(vc.entry, key, idx, s))), []string{"C05"}, vc.curPos, "an operand read returns the operand's value at entry (not something written through an aliased destination): "+key)
}

// inOperand: address a lies inside one of the named operand objects.
func (vc *FuncVC) inOperand(roots map[string]bool, a Term) Term {
	var names []string
	for n := range roots {
		names = append(names, n)
	}
	sort.Strings(names)
	g := TFalse
	for _, n := range names {
		pv := vc.params[n]
		g = Or(g, And(Ne(pv.T, IntLit(0)), Le(pv.T, a), Lt(a, Add(pv.T, IntLit(vc.L.sizeOf(pv.Ty.Elem))))))
	}
	return g
}

func isOut(fc *FuncContract, name string) bool {
	for _, o := range fc.Outs {
		if o == name {
			return true
		}
	}
	return false
}

func (vc *FuncVC) markDef(st *State, key string, idx Term, v Term) {
	if vc.defKeys == nil || !vc.defKeys[key] {
		return
	}
	vc.store(st, "def."+key, idx, v)
}

func (vc *FuncVC) isDef(st *State, key string, idx Term) Term {
	return vc.load(st, "def."+key, idx, SBool)
}

// readCheck: the code reads leaf key[idx].
func (vc *FuncVC) readCheck(st *State, key string, idx Term) {
	if vc.defKeys == nil || !vc.defKeys[key] || vc.discovery > 0 {
		return
	}
	vc.oblige("D", fmt.Sprintf("defined/%s#%d", key, vc.ord("defined")), vc.reach[vc.curBlock], vc.isDef(st, key, idx), []string{"C05", "C06"}, vc.curPos, "the previous contents of a destination are not read: "+key)
}

// allDef: every leaf of the object of type t at address a is defined.
func (vc *FuncVC) allDef(st *State, a Term, t types.Type) Term {
	var gs []Term
	for _, lf := range vc.L.leaves(t, 0, "") {
		if vc.defKeys[lf.Key] {
			gs = append(gs, vc.isDef(st, lf.Key, Add(a, IntLit(lf.Off))))
		}
	}
	return And(gs...)
}

func (vc *FuncVC) loadLoc(st *State, l *Loc) *Val {
	if l.Slice != nil {
		p := vc.load(st, l.Key+"#ptr", l.Idx, SInt)
		n := vc.load(st, l.Key+"#len", l.Idx, SInt)
		pv := vc.define("sl_ptr", p)
		nv := vc.define("sl_len", n)
		vc.assume(And(Ge(nv, IntLit(0)), Ge(pv, IntLit(0)), Implies(Gt(nv, IntLit(0)), Gt(pv, IntLit(0)))))
		return &Val{Kind: vSlice, Elems: []*Val{{T: pv}, {T: nv}, vc.freshCap(nv)}, GoType: l.Slice}
	}
	if strings.HasPrefix(l.Key, "global.") {
		// load of a package-level scalar/pointer variable
		gi := vc.W.globals[strings.TrimPrefix(l.Key, "global.")]
		if gi.Pointee != 0 {
			vc.touchGlobal(gi, st)
			return vc.ptrVal(IntLit(gi.Pointee), l.Type)
		}
		t := vc.load(st, cellKey(l.Type), l.Idx, l.Sort)
		vc.touchGlobal(gi, st)
		return &Val{T: t, GoType: l.Type}
	}
	t := vc.load(st, l.Key, l.Idx, l.Sort)
	vc.readCheck(st, l.Key, l.Idx)
	vc.staleCheck(st, l.Key, l.Idx)
	if l.Type != nil {
		if _, _, isInt := intRange(l.Type); isInt && !isCondition(l.Type) {
			t = vc.define("ld", t)
			vc.assume(rangeFact(t, l.Type))
		}
		if p, ok := l.Type.Underlying().(*types.Pointer); ok {
			t = vc.define("ldp", t)
			vc.assume(And(Ge(t, IntLit(0)), Le(Add(t, IntLit(vc.L.sizeOf(p.Elem()))), st.cnt)))
			return vc.ptrVal(t, l.Type)
		}
	}
	return &Val{T: t, GoType: l.Type}
}

// ptrVal wraps an address as a value of pointer type t (Loc for pointers to scalars).
func (vc *FuncVC) ptrVal(a Term, t types.Type) *Val {
	if p, ok := t.Underlying().(*types.Pointer); ok {
		if es, sc := scalarSort(p.Elem()); sc {
			return &Val{Kind: vLoc, Loc: &Loc{Key: cellKey(p.Elem()), Idx: a, Sort: es, Type: p.Elem()}, T: a, GoType: t}
		}
	}
	return &Val{T: a, GoType: t}
}

func (vc *FuncVC) loadAgg(st *State, a Term, t types.Type) *Val {
	v := &Val{Kind: vAgg, GoType: t}
	for _, lf := range vc.L.leaves(t, 0, "") {
		v.Flat = append(v.Flat, vc.load(st, lf.Key, Add(a, IntLit(lf.Off)), lf.Sort))
		vc.readCheck(st, lf.Key, Add(a, IntLit(lf.Off)))
		vc.staleCheck(st, lf.Key, Add(a, IntLit(lf.Off)))
	}
	return v
}

func (vc *FuncVC) storeAgg(st *State, a Term, t types.Type, v *Val) {
	lvs := vc.L.leaves(t, 0, "")
	if !vc.L.layer1 {
		for _, lf := range lvs {
			if lf.Key == "BigInt.val" {
				// a BigInt copied by value shares its heap representation with the source: outside the value abstraction of layer 2
				if o := vc.oblige("S", fmt.Sprintf("bigint-copy#%d", vc.ord("bigint-copy")), vc.reach[vc.curBlock], TFalse, vc.propTags("C05", "C06", "C16", "C18"), vc.fn.Pos(), "a BigInt must not be copied by value (the copy would share the operand's heap representation) in a function that writes a BigInt, havocs the heap or lets a non-scalar escape"); o != nil {
					vc.bigCopyObls = append(vc.bigCopyObls, o)
				}
				vc.inBigCopy = true
				defer func() { vc.inBigCopy = false }()
				break
			}
		}
	}
	if len(lvs) != len(v.Flat) {
		vc.unsupported("aggregate store shape mismatch for %s", t)
		return
	}
	for i, lf := range lvs {
		vc.storeLeaf(st, lf.Key, Add(a, IntLit(lf.Off)), v.Flat[i])
	}
}

func (vc *FuncVC) storeLoc(st *State, l *Loc, v *Val) {
	if l.Slice != nil {
		if v.Kind != vSlice {
			vc.unsupported("slice store of non-slice")
			return
		}
		vc.storeLeaf(st, l.Key+"#ptr", l.Idx, v.Elems[0].T)
		vc.storeLeaf(st, l.Key+"#len", l.Idx, v.Elems[1].T)
		return
	}
	if strings.HasPrefix(l.Key, "global.") {
		// package-level variables are shared state: no function under contract may assign one (C06, C18)
		vc.oblige("F", fmt.Sprintf("global-write#%d", vc.ord("global-write")), vc.reach[vc.curBlock], TFalse, vc.propTags("C06", "C18"), vc.curPos, "no package-level variable is assigned: "+strings.TrimPrefix(l.Key, "global."))
		vc.unsupported("store to package-level variable %s", l.Key)
		return
	}
	t := v.T
	if v.Kind == vLoc {
		t = v.Loc.Idx
	}
	if v.Kind != vScalar && v.Kind != vLoc {
		vc.unsupported("store of aggregate through scalar pointer")
		return
	}
	vc.storeLeaf(st, l.Key, l.Idx, t)
}

// ---------------------------------------------------------------- setup

func NewFuncVC(W *World, fn *ssa.Function, fc *FuncContract) *FuncVC {
	g0 := newGen(W, fc.Layer1)
	g0.reveal = fc.Reveal
	vc := &FuncVC{Gen: g0, fn: fn, fc: fc, name: fc.Name,
		vals: map[ssa.Value]*Val{}, reach: map[*ssa.BasicBlock]Term{}, out: map[*ssa.BasicBlock]*State{},
		edges: map[[2]int]Term{}, params: map[string]SVal{}, callOrd: map[string]int{}, nonnil: map[ssa.Value]bool{},
		loopOrd: map[*ssa.BasicBlock]int{}, loopBody: map[*ssa.BasicBlock]map[*ssa.BasicBlock]bool{}, backEdge: map[[2]int]bool{},
		headerSt: map[*ssa.BasicBlock]*loopHead{}, uncontracted: map[string]bool{}, trustedUsed: map[string]bool{}, contractedUsed: map[string]bool{}, lemmasUsed: map[string]bool{}, ordCount: map[string]int{}, localDone: map[string]bool{}, assertsSeen: map[string]bool{}, allocs: map[string]*Val{}, debugVals: map[string]SVal{}, bindings: map[string][]binding{}, defBlock: map[string]*ssa.BasicBlock{}}
	return vc
}

func (vc *FuncVC) setupParams() {
	for _, p := range vc.fn.Params {
		t := p.Type()
		name := p.Name()
		var v *Val
		if _, ok := t.Underlying().(*types.Slice); ok {
			pt := vc.named("p_"+name+"_ptr", SInt)
			ln := vc.named("p_"+name+"_len", SInt)
			vc.assume(And(Ge(ln, IntLit(0)), Lt(IntLit(0), pt), Le(Add(pt, ln), vc.entry.cnt), Lt(ln, BigLit(pow2big(62)))))
			capV := vc.freshCap(ln)
			// the whole backing array (spare cells included) was allocated before the call
			vc.assume(Le(Add(pt, Mul(IntLit(vc.L.sizeOf(t.Underlying().(*types.Slice).Elem())), capV.T)), vc.entry.cnt))
			v = &Val{Kind: vSlice, Elems: []*Val{{T: pt}, {T: ln}, capV}, GoType: t}
		} else if s, ok := scalarSort(t); ok {
			c := vc.named("p_"+name, s)
			vc.assume(rangeFact(c, t))
			if ptr, isPtr := t.Underlying().(*types.Pointer); isPtr {
				sz := vc.L.sizeOf(ptr.Elem())
				wf := And(Lt(IntLit(0), c), Le(Add(c, IntLit(sz)), vc.entry.cnt))
				if vc.fc.Nilable[name] {
					vc.assume(Or(Eq(c, IntLit(0)), wf))
				} else {
					vc.assume(wf)
					vc.nonnil[p] = true
				}
				v = vc.ptrVal(c, t)
			} else {
				v = &Val{T: c, GoType: t}
			}
		} else {
			v = &Val{Kind: vAgg, GoType: t}
			for i, lf := range vc.L.leaves(t, 0, "") {
				c := vc.named(fmt.Sprintf("p_%s_%d", name, i), lf.Sort)
				if lf.Type != nil {
					vc.assume(rangeFact(c, lf.Type))
				}
				v.Flat = append(v.Flat, c)
			}
		}
		vc.vals[p] = v
		vc.params[name] = vc.toSVal(v, t)
		if isFmtState(t) {
			// what was written to the state before the call lies in memory allocated before the call
			lp, ln := vc.stateLog(vc.entry, v.T)
			vc.assume(And(Lt(IntLit(0), lp), Le(IntLit(0), ln), Le(Add(lp, ln), vc.entry.cnt)))
		}
	}
	// ghost variables of the contract: arbitrary values (the obligations are proved for all of them)
	for _, gp := range vc.fc.Ghosts {
		ty := (&Env{g: vc.Gen}).parseType(gp.Type)
		if ty.K != KInt && ty.K != KBool {
			panic(fmt.Sprintf("spec: ghost %s: only int and bool ghosts", gp.Name))
		}
		vc.params[gp.Name] = SVal{T: vc.named("g_"+gp.Name, ty.sort()), Ty: ty}
	}
	// objects of the same type are identical or disjoint (no partial overlap): needed where leaves
	// are addressed by their own address (array elements such as the inline words of a BigInt)
	ps := vc.fn.Params
	for i := 0; i < len(ps); i++ {
		for j := i + 1; j < len(ps); j++ {
			pi, ok1 := ps[i].Type().Underlying().(*types.Pointer)
			pj, ok2 := ps[j].Type().Underlying().(*types.Pointer)
			if !ok1 || !ok2 || !types.Identical(pi.Elem(), pj.Elem()) {
				continue
			}
			sz := vc.L.sizeOf(pi.Elem())
			if sz <= 1 {
				continue
			}
			a, b := vc.vals[ps[i]], vc.vals[ps[j]]
			if a.Kind != vScalar || b.Kind != vScalar {
				continue
			}
			vc.assume(Or(Eq(a.T, IntLit(0)), Eq(b.T, IntLit(0)), Eq(a.T, b.T), Le(Add(a.T, IntLit(sz)), b.T), Le(Add(b.T, IntLit(sz)), a.T)))
		}
	}
	if len(vc.fn.FreeVars) > 0 {
		vc.unsupported("closure free variables")
	}
}

func (vc *FuncVC) env(cur *State, extra map[string]SVal) *Env {
	e := &Env{g: vc.Gen, cur: cur, old: vc.entry, vars: map[string]SVal{}, entry: vc.params}
	for k, v := range vc.params {
		e.vars[k] = v
	}
	for k, v := range extra {
		e.vars[k] = v
	}
	return e
}

// ---------------------------------------------------------------- CFG

func (vc *FuncVC) analyseCFG() []*ssa.BasicBlock {
	fn := vc.fn
	// back edges: u->h with h dominating u
	for _, b := range fn.Blocks {
		for _, s := range b.Succs {
			if s.Dominates(b) {
				vc.backEdge[[2]int{b.Index, s.Index}] = true
				if vc.loopBody[s] == nil {
					vc.loopBody[s] = map[*ssa.BasicBlock]bool{s: true}
				}
				// natural loop: nodes reaching b without passing through s
				var stack []*ssa.BasicBlock
				if !vc.loopBody[s][b] {
					vc.loopBody[s][b] = true
					stack = append(stack, b)
				}
				for len(stack) > 0 {
					x := stack[len(stack)-1]
					stack = stack[:len(stack)-1]
					for _, p := range x.Preds {
						if !vc.loopBody[s][p] {
							vc.loopBody[s][p] = true
							stack = append(stack, p)
						}
					}
				}
			}
		}
	}
	var headers []*ssa.BasicBlock
	for h := range vc.loopBody {
		headers = append(headers, h)
	}
	sort.Slice(headers, func(i, j int) bool { return headers[i].Index < headers[j].Index })
	for i, h := range headers {
		vc.loopOrd[h] = i + 1
		if vc.fc != nil && vc.fc.Decr[i+1] == nil && vc.fc.ErrExit[i+1] == nil {
			pos := vc.W.prog.Fset.Position(h.Instrs[0].Pos())
			vc.noTerm = append(vc.noTerm, fmt.Sprintf("%s loop %d (%s:%d)", vc.name, i+1, filepath.Base(pos.Filename), pos.Line))
		}
	}
	// reverse post-order over forward edges. Two orders are computed: the plain one numbers the returns
	// (obligation names stay what they were), the second one - which visits the successors that leave the
	// innermost loop first, so that in the reversed order a loop's body precedes whatever follows the loop -
	// is the processing order: the facts of a later loop then never end up in the queries of an earlier one.
	innermost := func(b *ssa.BasicBlock) map[*ssa.BasicBlock]bool {
		var best map[*ssa.BasicBlock]bool
		for _, body := range vc.loopBody {
			if body[b] && (best == nil || len(body) < len(best)) {
				best = body
			}
		}
		return best
	}
	order := func(loopFirst bool) []*ssa.BasicBlock {
		seen := map[*ssa.BasicBlock]bool{}
		var post []*ssa.BasicBlock
		var dfs func(b *ssa.BasicBlock)
		dfs = func(b *ssa.BasicBlock) {
			seen[b] = true
			succs := append([]*ssa.BasicBlock{}, b.Succs...)
			if loopFirst {
				if body := innermost(b); body != nil {
					sort.SliceStable(succs, func(i, j int) bool { return !body[succs[i]] && body[succs[j]] })
				}
			}
			for _, s := range succs {
				if vc.backEdge[[2]int{b.Index, s.Index}] || seen[s] {
					continue
				}
				dfs(s)
			}
			post = append(post, b)
		}
		dfs(fn.Blocks[0])
		var rpo []*ssa.BasicBlock
		for i := len(post) - 1; i >= 0; i-- {
			rpo = append(rpo, post[i])
		}
		return rpo
	}
	vc.retNum = map[*ssa.Return]int{}
	for _, b := range order(false) {
		for _, ins := range b.Instrs {
			if r, ok := ins.(*ssa.Return); ok {
				vc.retNum[r] = len(vc.retNum) + 1
			}
		}
	}
	return order(true)
}

// ---------------------------------------------------------------- main driver

func (vc *FuncVC) Generate() (err error) {
	defer func() {
		if r := recover(); r != nil {
			if os.Getenv("APDVC_DEBUG") != "" {
				panic(r)
			}
			err = fmt.Errorf("%s: %v", vc.name, r)
		}
	}()
	if vc.fn.Blocks == nil {
		return fmt.Errorf("%s: no body", vc.name)
	}
	vc.numberSites()
	vc.setupParams()
	e0 := vc.env(vc.entry, nil)
	for _, r := range vc.fc.Requires {
		vc.assume(e0.boolean(r.E))
	}
	vc.applyHints(e0)
	vc.initDef()
	vc.initStale()
	// vacuity guard: the preconditions (and everything assumed at entry) are satisfiable
	vc.oblige("V", "vacuity/requires-sat", TTrue, TFalse, vc.propTags("C04"), vc.fn.Pos(), "requires satisfiable").ExpectSat = true
	rpo := vc.analyseCFG()
	// a clause that refers to a loop the function does not have would be ignored silently: make it an error
	nloops := len(vc.loopOrd)
	loopKeys := map[int]bool{}
	for k := range vc.fc.Invs {
		loopKeys[k] = true
	}
	for k := range vc.fc.Decr {
		loopKeys[k] = true
	}
	for k := range vc.fc.ErrExit {
		loopKeys[k] = true
	}
	for k := range vc.fc.LoopHints {
		loopKeys[k] = true
	}
	for k := range vc.fc.LoopLets {
		loopKeys[k] = true
	}
	for k := range vc.fc.BackHints {
		loopKeys[k] = true
	}
	for k := range vc.fc.BackAsserts {
		loopKeys[k] = true
	}
	// A clause for a loop or a return the function no longer has is stale: the code was restructured after the
	// contract was written. The clause is dropped (fewer assumptions and fewer proof hints: sound) and the
	// obligations of what is there are still generated, so that a real failure is reported by name with its
	// replay; the stale clause itself is reported as a problem of the contract (the check does not pass).
	for k := range loopKeys {
		if k < 1 || k > nloops {
			vc.Stale = append(vc.Stale, fmt.Sprintf("%s: the contract has clauses for loop %d but the function has %d loop(s)", vc.name, k, nloops))
			fc := *vc.fc
			fc.Invs, fc.Decr, fc.ErrExit, fc.LoopHints = dropKey(fc.Invs, k), dropKey(fc.Decr, k), dropKey(fc.ErrExit, k), dropKey(fc.LoopHints, k)
			fc.LoopLets, fc.BackHints, fc.BackAsserts = dropKey(fc.LoopLets, k), dropKey(fc.BackHints, k), dropKey(fc.BackAsserts, k)
			vc.fc = &fc
		}
	}
	for k := range vc.fc.DeadRets {
		if k < 1 || k > len(vc.retNum) {
			vc.Stale = append(vc.Stale, fmt.Sprintf("%s: the contract declares return %d unreachable but the function has %d return(s)", vc.name, k, len(vc.retNum)))
			fc := *vc.fc
			fc.DeadRets = dropKey(fc.DeadRets, k)
			vc.fc = &fc
		}
	}
	for _, list := range [][]string{vc.fc.Outs, keysOf(vc.fc.Nilable)} {
		for _, n := range list {
			if _, ok := vc.params[n]; !ok {
				return fmt.Errorf("%s: the contract names a parameter %q the function does not have", vc.name, n)
			}
		}
	}
	vc.processBlocks(rpo, nil)
	// ghost assertions attached to call sites that do not exist
	// stale proof-script clauses (the call site or the local is gone): reported as a contract problem; the obligations
	// that were generated stay (the assertion was a proof step, the assumption an extra fact: without them less is
	// provable, never more)
	var staleSites []string
	for site := range vc.fc.Asserts {
		if !vc.assertsSeen[site] {
			staleSites = append(staleSites, site)
		}
	}
	sort.Strings(staleSites)
	for _, site := range staleSites {
		vc.Stale = append(vc.Stale, fmt.Sprintf("%s: the contract has an assertion before %s but there is no such call site", vc.name, site))
	}
	for n := range vc.fc.LocalAssume {
		if !vc.localDone[n] {
			vc.Stale = append(vc.Stale, fmt.Sprintf("%s: the contract assumes something about a local %q that is never bound", vc.name, n))
		}
	}
	for w := range vc.fc.Imports {
		if vc.W.spec.Funcs[w] == nil {
			return fmt.Errorf("%s: import of unknown wrapper %s", vc.name, w)
		}
	}
	vc.settleBigCopies()
	return nil
}

// settleBigCopies: a by-value copy of a BigInt shares the heap representation of its source, which only a later
// write through one of the two can make observable. In a function that never writes a BigInt (itself, through a
// callee's assigns clause or through a callee without frame), uses nothing outside the modelled subset, calls no
// interface method, wraps no pointer or aggregate in an interface and returns only scalars and interfaces, the copy
// is a read-only snapshot: its bigint-copy obligations are dropped (noted). Otherwise they stay, and cannot be discharged.
func (vc *FuncVC) settleBigCopies() {
	if len(vc.bigCopyObls) == 0 || vc.bigWrites > 0 {
		return
	}
	res := vc.fn.Signature.Results()
	for i := 0; i < res.Len(); i++ {
		switch res.At(i).Type().Underlying().(type) {
		case *types.Basic, *types.Interface:
		default:
			return
		}
	}
	drop := map[*Obligation]bool{}
	for _, o := range vc.bigCopyObls {
		drop[o] = true
	}
	var keep []*Obligation
	for _, o := range vc.obls {
		if !drop[o] {
			keep = append(keep, o)
		}
	}
	vc.obls = keep
	vc.note("%d by-value BigInt copies accepted as read-only snapshots: the function writes no BigInt, havocs nothing, lets no pointer escape", len(vc.bigCopyObls))
}

// dropKey returns a copy of m without key k (the parsed contract is shared between runs of the generator).
func dropKey[V any](m map[int]V, k int) map[int]V {
	out := make(map[int]V, len(m))
	for kk, v := range m {
		if kk != k {
			out[kk] = v
		}
	}
	return out
}

func keysOf(m map[string]bool) []string {
	var out []string
	for k := range m {
		out = append(out, k)
	}
	sort.Strings(out)
	return out
}

var freshRe = regexp.MustCompile(`!(\d+)`)

func maxFreshIn(s string) int {
	m := 0
	for _, g := range freshRe.FindAllStringSubmatch(s, -1) {
		n, _ := strconv.Atoi(g[1])
		if n > m {
			m = n
		}
	}
	return m
}

type snapshot struct {
	nbind                                                  map[string]int
	allocs                                                 map[string]*Val
	nfacts, ndecls, nfresh, nobls, nwrites, nunsup, nnotes int
	vals                                                   map[ssa.Value]*Val
	declared                                               map[string]bool
	touched                                                map[string]bool
	ordCount                                               map[string]int
	callOrd                                                map[string]int
}

func (vc *FuncVC) snap() *snapshot {
	s := &snapshot{nfacts: len(vc.facts), ndecls: len(vc.decls), nfresh: vc.nfresh, nobls: len(vc.obls), nwrites: len(vc.writes), nunsup: len(vc.unsup), nnotes: len(vc.notes),
		vals: map[ssa.Value]*Val{}, declared: map[string]bool{}, touched: map[string]bool{}, ordCount: map[string]int{}, callOrd: map[string]int{}}
	for k, v := range vc.vals {
		s.vals[k] = v
	}
	for k, v := range vc.declared {
		s.declared[k] = v
	}
	for k, v := range vc.touched {
		s.touched[k] = v
	}
	for k, v := range vc.ordCount {
		s.ordCount[k] = v
	}
	for k, v := range vc.callOrd {
		s.callOrd[k] = v
	}
	s.nbind = map[string]int{}
	for k, v := range vc.bindings {
		s.nbind[k] = len(v)
	}
	s.allocs = map[string]*Val{}
	for k, v := range vc.allocs {
		s.allocs[k] = v
	}
	return s
}

func (vc *FuncVC) restore(s *snapshot) {
	vc.facts = vc.facts[:s.nfacts]
	vc.decls = vc.decls[:s.ndecls]
	vc.nfresh = s.nfresh
	vc.dropDefsAfter(s.nfresh)
	vc.obls = vc.obls[:s.nobls]
	vc.writes = vc.writes[:s.nwrites]
	vc.unsup = vc.unsup[:s.nunsup]
	vc.notes = vc.notes[:s.nnotes]
	vc.vals = s.vals
	vc.declared = s.declared
	vc.touched = s.touched
	vc.ordCount = s.ordCount
	vc.callOrd = s.callOrd
	for k, v := range vc.bindings {
		vc.bindings[k] = v[:s.nbind[k]]
	}
	vc.allocs = s.allocs
}

// processBlocks symbolically executes the blocks in a topological order of
// the forward CFG.
func (vc *FuncVC) processBlocks(order []*ssa.BasicBlock, _ map[*ssa.BasicBlock]bool) {
	for _, b := range order {
		if _, isHeader := vc.loopBody[b]; isHeader {
			vc.enterLoop(b, order)
		} else {
			vc.enterBlock(b)
		}
		vc.execBlock(b)
	}
}

// forwardIn merges the out-states of the forward predecessors of b.
func (vc *FuncVC) forwardIn(b *ssa.BasicBlock) (*State, Term, []Term, []*ssa.BasicBlock) {
	if len(b.Preds) == 0 {
		return vc.entry.clone(), TTrue, nil, nil
	}
	var conds []Term
	var preds []*ssa.BasicBlock
	var states []*State
	for _, p := range b.Preds {
		if vc.backEdge[[2]int{p.Index, b.Index}] {
			continue
		}
		c, ok := vc.edges[[2]int{p.Index, b.Index}]
		if !ok {
			continue // predecessor not processed (unreachable)
		}
		conds = append(conds, c)
		preds = append(preds, p)
		states = append(states, vc.out[p])
	}
	if len(preds) == 0 {
		return vc.entry.clone(), TFalse, nil, nil
	}
	reach := vc.define(fmt.Sprintf("reach_b%d", b.Index), Or(conds...))
	st := states[0].clone()
	if len(states) > 1 {
		keys := map[string]bool{}
		for _, s := range states {
			for k := range s.heap {
				keys[k] = true
			}
		}
		var ks []string
		for k := range keys {
			ks = append(ks, k)
		}
		sort.Strings(ks)
		for _, k := range ks {
			s := vc.keys[k]
			same := true
			first := vc.arr(states[0], k, s)
			for _, x := range states[1:] {
				if vc.arr(x, k, s).S != first.S {
					same = false
				}
			}
			if same {
				st.heap[k] = first
				continue
			}
			m := vc.freshArray(fmt.Sprintf("M_%s_b%d", k, b.Index), s)
			expr := vc.arr(states[len(states)-1], k, s).S
			for i := len(states) - 2; i >= 0; i-- {
				expr = "(ite " + conds[i].S + " " + vc.arr(states[i], k, s).S + " " + expr + ")"
			}
			vc.assume(Term{"(= " + m.S + " " + expr + ")", SBool})
			st.heap[k] = m
		}
		sameCnt := true
		for _, x := range states[1:] {
			if x.cnt.S != states[0].cnt.S {
				sameCnt = false
			}
		}
		if !sameCnt {
			expr := states[len(states)-1].cnt
			for i := len(states) - 2; i >= 0; i-- {
				expr = Ite(conds[i], states[i].cnt, expr)
			}
			st.cnt = vc.define(fmt.Sprintf("cnt_b%d", b.Index), expr)
		}
	}
	return st, reach, conds, preds
}

func (vc *FuncVC) enterBlock(b *ssa.BasicBlock) {
	st, reach, conds, preds := vc.forwardIn(b)
	vc.reach[b] = reach
	vc.out[b] = st
	// phis
	for _, ins := range b.Instrs {
		phi, ok := ins.(*ssa.Phi)
		if !ok {
			break
		}
		vc.vals[phi] = vc.mergePhi(phi, b, conds, preds)
		if phi.Comment != "" && (vc.vals[phi].Kind == vScalar || vc.vals[phi].Kind == vSlice) {
			vc.bind(phi.Comment, b, vc.toSVal(vc.vals[phi], phi.Type()))
		}
	}
}

func (vc *FuncVC) mergePhi(phi *ssa.Phi, b *ssa.BasicBlock, conds []Term, preds []*ssa.BasicBlock) *Val {
	var vals []*Val
	for _, p := range preds {
		for i, bp := range b.Preds {
			if bp == p {
				vals = append(vals, vc.val(phi.Edges[i]))
				break
			}
		}
	}
	if len(vals) == 0 {
		return vc.freshVal("phi_"+phi.Name(), phi.Type())
	}
	return vc.mergeVals(phi.Name(), phi.Type(), conds, vals)
}

func (vc *FuncVC) mergeVals(hint string, t types.Type, conds []Term, vals []*Val) *Val {
	first := vals[0]
	mergeT := func(get func(v *Val) Term) Term {
		expr := get(vals[len(vals)-1])
		for i := len(vals) - 2; i >= 0; i-- {
			expr = Ite(conds[i], get(vals[i]), expr)
		}
		return vc.define("phi_"+hint, expr)
	}
	switch first.Kind {
	case vScalar:
		for _, v := range vals {
			if v.Kind != vScalar {
				vc.unsupported("phi of mixed kinds")
				return vc.freshVal("phi", t)
			}
		}
		return &Val{T: mergeT(func(v *Val) Term { return v.T }), GoType: t}
	case vLoc:
		for _, v := range vals {
			if v.Kind != vLoc || v.Loc.Key != first.Loc.Key {
				vc.unsupported("phi of pointers to different kinds of location")
				return vc.freshVal("phi", t)
			}
		}
		idx := mergeT(func(v *Val) Term { return v.Loc.Idx })
		l := *first.Loc
		l.Idx = idx
		return &Val{Kind: vLoc, Loc: &l, T: idx, GoType: t}
	case vSlice, vTuple:
		out := &Val{Kind: first.Kind, GoType: t}
		for i := range first.Elems {
			var sub []*Val
			for _, v := range vals {
				sub = append(sub, v.Elems[i])
			}
			out.Elems = append(out.Elems, vc.mergeVals(hint, nil, conds, sub))
		}
		return out
	case vAgg:
		out := &Val{Kind: vAgg, GoType: t}
		for i := range first.Flat {
			i := i
			out.Flat = append(out.Flat, mergeT(func(v *Val) Term { return v.Flat[i] }))
		}
		return out
	}
	return vc.freshVal("phi", t)
}

// ---------------------------------------------------------------- loops

func (vc *FuncVC) loopVars(h *ssa.BasicBlock, get func(phi *ssa.Phi) *Val) map[string]SVal {
	m := map[string]SVal{}
	for _, ins := range h.Instrs {
		phi, ok := ins.(*ssa.Phi)
		if !ok {
			break
		}
		name := phi.Comment
		if name == "" {
			continue
		}
		v := get(phi)
		if v == nil {
			continue
		}
		name = strings.TrimPrefix(name, "#")
		if name == "rangeindex" {
			name = "#i"
		}
		m[name] = vc.toSVal(v, phi.Type())
	}
	return m
}

func (vc *FuncVC) enterLoop(h *ssa.BasicBlock, order []*ssa.BasicBlock) {
	vc.curBlock = h
	k := vc.loopOrd[h]
	stIn, reach, conds, preds := vc.forwardIn(h)
	vc.reach[h] = reach
	tags := vc.propTags()
	// 1. invariants hold on entry
	entryPhis := map[*ssa.Phi]*Val{}
	for _, ins := range h.Instrs {
		phi, ok := ins.(*ssa.Phi)
		if !ok {
			break
		}
		entryPhis[phi] = vc.mergePhi(phi, h, conds, preds)
	}
	envIn := vc.env(stIn, vc.withLocals(vc.loopVars(h, func(p *ssa.Phi) *Val { return entryPhis[p] })))
	for j, inv := range vc.fc.Invs[k] {
		t := envIn.boolean(inv.E)
		vc.oblige("L", fmt.Sprintf("loop%d/inv%d/entry", k, j+1), reach, t, vc.loopTags(k, clauseTags(inv, tags)), h.Instrs[0].Pos(), inv.Src)
	}
	// 2. discovery pass: which locations does the body write?
	body := vc.loopBody[h]
	sn := vc.snap()
	vc.discovery++
	vc.headerSt[h] = &loopHead{}
	stD := stIn.clone()
	vc.out[h] = stD
	for phi, v := range entryPhis {
		vc.vals[phi] = v
	}
	vc.execBlock(h)
	vc.processBody(order, body, h)
	writes := append([]writeRec(nil), vc.writes[sn.nwrites:]...)
	cntChanged := false
	for _, b := range h.Preds {
		if vc.backEdge[[2]int{b.Index, h.Index}] && vc.out[b] != nil && vc.out[b].cnt.S != stIn.cnt.S {
			cntChanged = true
		}
	}
	vc.discovery--
	vc.restore(sn)
	delete(vc.headerSt, h)
	// 3. havoc
	st := stIn.clone()
	byKey := map[string][]writeRec{}
	var korder []string
	for _, w := range writes {
		if _, ok := byKey[w.key]; !ok {
			korder = append(korder, w.key)
		}
		byKey[w.key] = append(byKey[w.key], w)
	}
	sort.Strings(korder)
	for _, key := range korder {
		ws := byKey[key]
		variant := false
		seen := map[string]bool{}
		var idxs []string
		for _, w := range ws {
			if w.idx == "*" || maxFreshIn(w.idx) > sn.nfresh {
				variant = true
				break
			}
			if !seen[w.idx] {
				seen[w.idx] = true
				idxs = append(idxs, w.idx)
			}
		}
		s := ws[0].s
		if variant {
			lh := vc.freshArray("LH_"+key, s)
			st.heap[key] = lh
			// Inductive frame. In a function that claims a frame every store and every callee effect carries a write
			// obligation (fresh memory or the assigns set). If all writes of this loop to the key are of that checked
			// kind, a cell that existed at entry and is outside the assigns set still holds its entry value at the
			// loop head, however many iterations ran.
			allChecked := vc.fc.HasAssigns
			for _, w := range ws {
				if !w.chk {
					allChecked = false
				}
			}
			if allChecked {
				vc.assume(vc.frameFact(key, s, lh))
			}
			continue
		}
		for _, ix := range idxs {
			vc.havocLeaf(st, key, Term{ix, SInt}, s, "lh_"+key)
		}
	}
	if cntChanged {
		c := vc.fresh("cnt_loop", SInt)
		vc.assume(Ge(c, stIn.cnt))
		st.cnt = c
	}
	lh := &loopHead{st: st.clone()}
	vc.headerSt[h] = lh
	vc.out[h] = st
	for _, ins := range h.Instrs {
		phi, ok := ins.(*ssa.Phi)
		if !ok {
			break
		}
		vc.vals[phi] = vc.freshVal("lphi_"+phi.Name(), phi.Type())
	}
	lh.phis = vc.loopVars(h, func(p *ssa.Phi) *Val { return vc.vals[p] })
	envH := vc.env(st, vc.withLocals(lh.phis))
	for _, inv := range vc.fc.Invs[k] {
		vc.assume(Implies(reach, envH.boolean(inv.E)))
	}
	lh.lets = map[string]SVal{}
	for _, lt := range vc.fc.LoopLets[k] {
		v := envH.eval(lt.E)
		if v.Ty.K == KInt {
			v.T = vc.define("let_"+lt.Name, v.T)
		}
		lh.lets[lt.Name] = v
		envH.vars[lt.Name] = v
	}
	for _, h := range vc.fc.LoopHints[k] {
		if call, ok := h.E.(*ECall); ok {
			if lm := vc.useLemma(call.Fn); lm != nil {
				vc.assume(instantiateLemma(envH, lm, call.Args))
				continue
			}
		}
		panic("loop hint must be a lemma application: " + h.Src)
	}
	if d := vc.fc.Decr[k]; d != nil {
		lh.measure = vc.define("measure", envH.integer(d.E))
		lh.hasMeas = true
	}
}

// processBody executes the blocks of a loop body other than its header.
func (vc *FuncVC) processBody(order []*ssa.BasicBlock, body map[*ssa.BasicBlock]bool, h *ssa.BasicBlock) {
	for _, b := range order {
		if !body[b] || b == h {
			continue
		}
		if _, isHeader := vc.loopBody[b]; isHeader {
			vc.enterLoop(b, order)
		} else {
			vc.enterBlock(b)
		}
		vc.execBlock(b)
	}
}

func clauseTags(c *Clause, def []string) []string {
	if len(c.Tags) > 0 {
		return c.Tags
	}
	return def
}

// loopTags: the invariants of a loop whose termination is claimed (measure or error exit) carry that claim: they are C04 obligations too.
func (vc *FuncVC) loopTags(k int, tags []string) []string {
	if vc.fc.Decr[k] == nil && vc.fc.ErrExit[k] == nil {
		return tags
	}
	for _, t := range tags {
		if t == "C04" {
			return tags
		}
	}
	out := append(append([]string{}, tags...), "C04")
	sort.Strings(out)
	return out
}

// backEdgeChecks: invariants preserved and measure decreases along u -> h.
func (vc *FuncVC) backEdgeChecks(u, h *ssa.BasicBlock, cond Term) {
	k := vc.loopOrd[h]
	lh := vc.headerSt[h]
	if lh == nil || lh.st == nil {
		return
	}
	st := vc.out[u]
	vars := vc.loopVars(h, func(p *ssa.Phi) *Val {
		for i, bp := range h.Preds {
			if bp == u {
				return vc.val(p.Edges[i])
			}
		}
		return nil
	})
	env := vc.env(st, vc.withLocals(vars))
	for n, v := range lh.lets {
		env.vars[n] = v
	}
	for _, bh := range vc.fc.BackHints[k] {
		call, ok := bh.E.(*ECall)
		if !ok || vc.useLemma(call.Fn) == nil {
			panic("loop backhint must be a lemma application: " + bh.Src)
		}
		vc.assume(Implies(cond, instantiateLemma(env, vc.useLemma(call.Fn), call.Args)))
	}
	for j, ba := range vc.fc.BackAsserts[k] {
		label := ba.Name
		if label == "" {
			label = fmt.Sprintf("%d", j+1)
		}
		t := env.boolean(ba.E)
		if ba.When != nil {
			t = Implies(vc.env(vc.entry, nil).boolean(ba.When), t)
		}
		vc.oblige("L", fmt.Sprintf("loop%d/step/%s@b%d", k, label, u.Index), cond, t, vc.propTags("C04"), h.Instrs[0].Pos(), ba.Src)
		vc.assume(Implies(cond, t))
	}
	tags := vc.propTags()
	for j, inv := range vc.fc.Invs[k] {
		t := env.boolean(inv.E)
		vc.oblige("L", fmt.Sprintf("loop%d/inv%d/preserved@b%d", k, j+1, u.Index), cond, t, vc.loopTags(k, clauseTags(inv, tags)), h.Instrs[0].Pos(), inv.Src)
	}
	if ee := vc.fc.ErrExit[k]; ee != nil {
		// error-exit: the loop is only repeated while no error is pending in the ErrDecimal
		t := env.boolean(&ECall{Fn: "edclean", Args: []Expr{ee.E}})
		vc.oblige("L", fmt.Sprintf("loop%d/errexit@b%d", k, u.Index), cond, t, vc.propTags("C04", "C03"), h.Instrs[0].Pos(), "a pending error ends the loop: "+ee.Src)
	}
	if d := vc.fc.Decr[k]; d != nil && lh.hasMeas {
		m := env.integer(d.E)
		goal := And(Ge(lh.measure, IntLit(0)), Lt(m, lh.measure))
		src := d.Src
		if d.When != nil {
			goal = Implies(vc.env(vc.entry, nil).boolean(d.When), goal)
			src += " when " + exprString(d.When)
		}
		vc.oblige("L", fmt.Sprintf("loop%d/decreases@b%d", k, u.Index), cond, goal, vc.propTags("C04"), h.Instrs[0].Pos(), src)
	}
}

// applyHints instantiates lemmas (assumed: they are universally valid) and
// proves-then-assumes plain hint facts at function entry.
func (vc *FuncVC) applyHints(e0 *Env) {
	for i, h := range vc.fc.Hints {
		if call, ok := h.E.(*ECall); ok {
			if lm := vc.useLemma(call.Fn); lm != nil {
				vc.assume(instantiateLemma(e0, lm, call.Args))
				continue
			}
		}
		t := e0.boolean(h.E)
		vc.oblige("G", fmt.Sprintf("hint%d", i+1), TTrue, t, vc.propTags(), vc.fn.Pos(), h.Src)
		vc.assume(t)
	}
}

// useLemma looks a lemma up and records that this function's obligations rest on it.
func (vc *FuncVC) useLemma(name string) *Lemma {
	lm := vc.W.spec.lemma(name)
	if lm != nil {
		vc.lemmasUsed[lm.Name] = true
	}
	return lm
}

func (sp *Spec) lemma(name string) *Lemma {
	for _, l := range sp.Lemmas {
		if l.Name == name {
			return l
		}
	}
	return nil
}

func instantiateLemma(e *Env, lm *Lemma, args []Expr) Term {
	if len(args) != len(lm.Params) {
		e.fail("lemma %s expects %d arguments", lm.Name, len(lm.Params))
	}
	vars := map[string]SVal{}
	for i, p := range lm.Params {
		v := e.eval(args[i])
		want := e.parseType(p.Type)
		if want.sort() != v.T.Sort {
			e.fail("lemma %s argument %s: sort mismatch", lm.Name, p.Name)
		}
		v.T = e.define(p.Name, v.T)
		vars[p.Name] = v
	}
	n := *e
	n.vars = vars
	return n.boolean(lm.Body)
}

// localVars exposes address-taken locals (by source name) as references.
func (vc *FuncVC) localVars() map[string]SVal {
	m := map[string]SVal{}
	visible := func(name string) bool {
		b := vc.defBlock[name]
		return b == nil || vc.curBlock == nil || b == vc.curBlock || b.Dominates(vc.curBlock)
	}
	for name, bs := range vc.bindings {
		key := name
		if _, clash := vc.params[name]; clash {
			// a parameter that the code reassigns: the plain name stays the entry value, now(name) is the current one
			key = "@now:" + name
		}
		// the binding made in the closest dominating block (last one within a block)
		var best *binding
		for i := range bs {
			b := &bs[i]
			if vc.curBlock != nil && b.blk != vc.curBlock && !b.blk.Dominates(vc.curBlock) {
				continue
			}
			if best == nil || best.blk == b.blk || best.blk.Dominates(b.blk) {
				best = b
			}
		}
		if best != nil {
			m[key] = best.v
		}
	}
	for name, v := range vc.allocs {
		if _, clash := vc.params[name]; clash || !visible("&"+name) {
			continue
		}
		switch v.Kind {
		case vScalar:
			if p, ok := v.GoType.Underlying().(*types.Pointer); ok {
				m[name] = SVal{T: v.T, Ty: SType{K: KRef, Elem: p.Elem()}}
			}
		case vLoc:
			m[name] = SVal{T: v.Loc.Idx, Ty: SType{K: KRef, Elem: v.Loc.Type}}
		}
	}
	return m
}

func (vc *FuncVC) numberSites() {
	vc.localNames = map[string]bool{}
	for _, l := range vc.fn.Locals {
		if l.Comment != "" {
			vc.localNames[l.Comment] = true
		}
	}
	for _, b := range vc.fn.Blocks {
		for _, ins := range b.Instrs {
			switch ins := ins.(type) {
			case *ssa.Alloc:
				if ins.Comment != "" {
					vc.localNames[ins.Comment] = true
				}
			case *ssa.DebugRef:
				// source-level locals only: a reference to a package-level name is not a local of this function
				if o := ins.Object(); o != nil && (o.Pkg() == nil || o.Parent() != o.Pkg().Scope()) {
					vc.localNames[o.Name()] = true
				}
			}
		}
	}
	vc.siteOrd = map[*ssa.Call]int{}
	by := map[string][]*ssa.Call{}
	for _, b := range vc.fn.Blocks {
		for _, ins := range b.Instrs {
			c, ok := ins.(*ssa.Call)
			if !ok {
				continue
			}
			callee := c.Common().StaticCallee()
			if callee == nil {
				continue
			}
			n := contractName(callee)
			by[n] = append(by[n], c)
		}
	}
	for _, cs := range by {
		sort.SliceStable(cs, func(i, j int) bool { return cs[i].Pos() < cs[j].Pos() })
		for i, c := range cs {
			vc.siteOrd[c] = i + 1
		}
	}
}

// goalLocal compiles a goal so that the definitions it introduces stay local to that goal.
func (vc *FuncVC) goalLocal(f func() Term) (Term, []string) {
	mark := len(vc.facts)
	nf := vc.nfresh
	touched := map[string]bool{}
	for k := range vc.touched {
		touched[k] = true
	}
	t := f()
	extra := append([]string(nil), vc.facts[mark:]...)
	vc.facts = vc.facts[:mark]
	for k, v := range vc.defCache {
		if v.idx > nf {
			delete(vc.defCache, k)
		}
	}
	vc.touched = touched
	return t, extra
}

type delegCall struct {
	reach Term
	args  []SVal
	res   *Val
	after *State
	pos   token.Pos
}

// withLocals adds the address-taken locals (and the most recent debug bindings) below the given variables.
func (vc *FuncVC) withLocals(vars map[string]SVal) map[string]SVal {
	m := vc.localVars()
	for k, v := range vars {
		m[k] = v
	}
	return m
}

type binding struct {
	blk *ssa.BasicBlock
	v   SVal
}

func (vc *FuncVC) bind(name string, b *ssa.BasicBlock, v SVal) {
	vc.debugVals[name] = v
	vc.bindings[name] = append(vc.bindings[name], binding{b, v})
}
