package main

import (
	"bytes"
	"context"
	"encoding/json"
	"fmt"
	"go/types"
	"os"
	"os/exec"
	"path/filepath"
	"strings"
	"time"

	"golang.org/x/tools/go/ssa"
)

type Witness struct {
	Desc      map[string]interface{}
	TestFile  string
	Output    string
	Confirmed bool
}

const racPrelude = `package apd

import (
	"errors"
	"fmt"
	"math/big"
	"math/rand"
	"os"
	"reflect"
	"strconv"
	"strings"
	"testing"
	"time"
)

var _ = strings.Join
var _ = errors.New
var _ = reflect.TypeOf
var _ = strconv.Itoa
var _ = time.Second

func racBig(s string) *big.Int { n, _ := new(big.Int).SetString(s, 10); return n }
func racI64(n *big.Int) int64 {
	if !n.IsInt64() {
		if n.Sign() < 0 {
			return -1 << 62
		}
		return 1 << 62
	}
	return n.Int64()
}
func racPow(b int64, n *big.Int) *big.Int {
	if n.Sign() < 0 || !n.IsInt64() || n.Int64() > 400000 {
		return big.NewInt(0) // outside the domain of the spec function
	}
	return new(big.Int).Exp(big.NewInt(b), n, nil)
}
func racNd10(v *big.Int) *big.Int {
	if v.Sign() == 0 {
		return big.NewInt(1)
	}
	return big.NewInt(int64(len(new(big.Int).Abs(v).String())))
}
func racMin(a, b *big.Int) *big.Int {
	if a.Cmp(b) <= 0 {
		return a
	}
	return b
}
func racMax(a, b *big.Int) *big.Int {
	if a.Cmp(b) >= 0 {
		return a
	}
	return b
}
func racTDiv(a, b *big.Int) *big.Int {
	if b.Sign() == 0 {
		return big.NewInt(0)
	}
	return new(big.Int).Quo(a, b)
}
func racTMod(a, b *big.Int) *big.Int {
	if b.Sign() == 0 {
		return big.NewInt(0)
	}
	return new(big.Int).Rem(a, b)
}
func racEDiv(a, b *big.Int) *big.Int {
	if b.Sign() == 0 {
		return big.NewInt(0)
	}
	return new(big.Int).Div(a, b)
}
func racEMod(a, b *big.Int) *big.Int {
	if b.Sign() == 0 {
		return big.NewInt(0)
	}
	return new(big.Int).Mod(a, b)
}
func racWrap64(a *big.Int) *big.Int {
	m := new(big.Int).Lsh(big.NewInt(1), 64)
	r := new(big.Int).Mod(a, m)
	if r.Cmp(new(big.Int).Lsh(big.NewInt(1), 63)) >= 0 {
		r.Sub(r, m)
	}
	return r
}
func racWrap64u(a *big.Int) *big.Int {
	return new(big.Int).Mod(a, new(big.Int).Lsh(big.NewInt(1), 64))
}
// racUF evaluates an "uninterpreted" specification function with math/big itself.
func racUF(name string, a ...*big.Int) *big.Int {
	r := racUF0(name, a...)
	if len(r.Bits()) == 0 {
		// math/big itself can hand back a zero with the sign flag set (GCD's Bezout coefficients)
		return new(big.Int)
	}
	return r
}
func racUF0(name string, a ...*big.Int) *big.Int {
	z := new(big.Int)
	u := func(k int) uint {
		if !a[k].IsUint64() || a[k].Uint64() > 1<<20 {
			return 1 << 20
		}
		return uint(a[k].Uint64())
	}
	switch name {
	case "uf_isnum", "uf_numval":
		// the numeral vocabulary, by its definition: an optional sign and one or more ASCII digits
		x, ok := racStrTab[a[0].Uint64()]
		if !ok {
			return z
		}
		t := x
		if len(t) > 0 && (t[0] == '+' || t[0] == '-') {
			t = t[1:]
		}
		if t == "" {
			return z
		}
		for i := 0; i < len(t); i++ {
			if t[i] < '0' || t[i] > '9' {
				return z
			}
		}
		if name == "uf_isnum" {
			return z.SetInt64(1)
		}
		z.SetString(x, 10)
		return z
	case "uf_ntext":
		x, ok := racStrTab[a[0].Uint64()]
		if !ok || a[3].Sign() < 0 || !a[2].IsInt64() || a[2].Int64() < 0 || a[2].Int64() > 1<<20 || !a[1].IsInt64() {
			return z
		}
		want := strings.Repeat("0", int(a[2].Int64())) + a[3].Text(10)
		switch a[1].Int64() {
		case 0:
		case '+', '-':
			want = string(rune(a[1].Int64())) + want
		default:
			return z
		}
		if x == want {
			return z.SetInt64(1)
		}
		return z
	case "uf_utext", "uf_stext":
		x, ok := racStrTab[a[0].Uint64()]
		if !ok || a[2].Sign() < 0 {
			return z
		}
		want := a[2].Text(10)
		if name == "uf_utext" {
			if !a[1].IsInt64() || a[1].Int64() < 0 || a[1].Int64() > 1<<20 {
				return z
			}
			want = strings.Repeat("0", int(a[1].Int64())) + want
		} else {
			if !a[1].IsInt64() || (a[1].Int64() != '+' && a[1].Int64() != '-') {
				return z
			}
			want = string(rune(a[1].Int64())) + want
		}
		if x == want {
			return z.SetInt64(1)
		}
		return z
	case "uf_hasprefix":
		x, okx := racStrTab[a[0].Uint64()]
		p, okp := racStrTab[a[1].Uint64()]
		if okx && okp && strings.HasPrefix(x, p) {
			return z.SetInt64(1)
		}
		return z
	case "uf_dchar":
		// character a[1] of the decimal text of |a[0]| (math/big's own text: the trusted meaning of the symbol)
		t := new(big.Int).Abs(a[0]).Text(10)
		if !a[1].IsInt64() || a[1].Int64() < 0 || a[1].Int64() >= int64(len(t)) {
			return z.SetInt64(-1)
		}
		return z.SetInt64(int64(t[a[1].Int64()]))
	case "uf_and":
		return z.And(a[0], a[1])
	case "uf_andnot":
		return z.AndNot(a[0], a[1])
	case "uf_or":
		return z.Or(a[0], a[1])
	case "uf_xor":
		return z.Xor(a[0], a[1])
	case "uf_not":
		return z.Not(a[0])
	case "uf_lsh":
		return z.Lsh(a[0], u(1))
	case "uf_rsh":
		return z.Rsh(a[0], u(1))
	case "uf_div":
		if a[1].Sign() == 0 {
			return z
		}
		return z.Div(a[0], a[1])
	case "uf_mod":
		if a[1].Sign() == 0 {
			return z
		}
		return z.Mod(a[0], a[1])
	case "uf_sqrt":
		if a[0].Sign() < 0 {
			return z
		}
		return z.Sqrt(a[0])
	case "uf_mulrange":
		return z.MulRange(racI64(a[0]), racI64(a[1]))
	case "uf_binomial":
		return z.Binomial(racI64(a[0]), racI64(a[1]))
	case "uf_setbit":
		if a[1].Sign() < 0 {
			return z
		}
		return z.SetBit(a[0], int(u(1)), uint(u(2)&1))
	case "uf_tzb":
		return z.SetUint64(uint64(a[0].TrailingZeroBits()))
	case "uf_pow":
		if !a[1].IsInt64() || a[1].Int64() > 1<<16 {
			return z
		}
		return z.Exp(a[0], a[1], nil)
	case "uf_expmod":
		if a[2].Sign() == 0 || z.Exp(a[0], a[1], a[2]) == nil {
			return new(big.Int)
		}
		return z
	case "uf_bit":
		if a[1].Sign() < 0 || !a[1].IsInt64() {
			return z
		}
		return z.SetUint64(uint64(a[0].Bit(int(a[1].Int64()))))
	case "uf_modsqrt":
		if z.ModSqrt(a[0], a[1]) == nil {
			return new(big.Int)
		}
		return z
	case "uf_modinv":
		if a[1].Sign() == 0 || z.ModInverse(a[0], a[1]) == nil {
			return new(big.Int)
		}
		return z
	case "uf_gcd":
		return z.GCD(nil, nil, a[0], a[1])
	case "uf_bezx":
		x := new(big.Int)
		z.GCD(x, nil, a[0], a[1])
		return x
	case "uf_bezy":
		y := new(big.Int)
		z.GCD(nil, y, a[0], a[1])
		return y
	}
	return z
}
// racGlobals folds the package's shared tables and constants into one number: any write to them shows up as a change.
func racGlobals() uint64 {
	var h uint64 = 1469598103934665603
	mix := func(v uint64) { h ^= v; h *= 1099511628211 }
	bi := func(b *BigInt) {
		m := b.MathBigInt()
		mix(uint64(m.BitLen()))
		mix(uint64(m.Sign() + 1))
		for _, w := range m.Bits() {
			mix(uint64(w))
		}
	}
	dec := func(d *Decimal) {
		mix(uint64(d.Form))
		mix(uint64(d.Exponent))
		if d.Negative {
			mix(7)
		}
		bi(&d.Coeff)
	}
	for i := range pow10LookupTable {
		bi(&pow10LookupTable[i])
	}
	for i := range digitsLookupTable {
		mix(uint64(digitsLookupTable[i].digits))
		bi(&digitsLookupTable[i].border)
		bi(&digitsLookupTable[i].nborder)
	}
	for _, b := range []*BigInt{bigOne, bigTwo, bigFive, bigTen} {
		bi(b)
	}
	for _, d := range []*Decimal{decimalZero, decimalOneEighth, decimalHalf, decimalOne, decimalTwo, decimalThree, decimalEight, decimalMaxInt64, decimalMinInt64, decimalCbrtC1, decimalCbrtC2, decimalCbrtC3, decimalNaN, decimalInfinity, &decimalLn10.unrounded, &decimalInvLn10.unrounded} {
		dec(d)
	}
	for _, c := range []*constWithPrecision{decimalLn10, decimalInvLn10} {
		for i := range c.vals {
			dec(&c.vals[i])
		}
	}
	mix(uint64(BaseContext.Precision))
	mix(uint64(BaseContext.Traps))
	mix(uint64(len(BaseContext.Rounding)))
	return h
}
func racExtends(r, b interface{}) bool {
	rv, bv := reflect.ValueOf(r), reflect.ValueOf(b)
	if rv.Kind() != reflect.Slice || bv.Kind() != reflect.Slice || bv.Cap() == 0 || rv.Cap() == 0 {
		return true
	}
	rp, bp, sz := rv.Pointer(), bv.Pointer(), bv.Type().Elem().Size()
	if rp == bp {
		return rv.Cap() == bv.Cap() && bv.Len() <= rv.Len()
	}
	return rp < bp || rp >= bp+uintptr(bv.Cap())*sz // not somewhere inside b's array
}
func racNegZero(p *big.Int) bool {
	return p != nil && len(p.Bits()) == 0 && p.Cmp(new(big.Int)) != 0
}
var racStrTab = map[uint64]string{}

func racStr(s string) *big.Int {
	c := racStrCode(s)
	racStrTab[c.Uint64()] = s
	return c
}
func racStrCode(s string) *big.Int {
	if s == "" {
		return big.NewInt(0)
	}
	var h uint64 = 14695981039346656037
	for i := 0; i < len(s); i++ {
		h ^= uint64(s[i])
		h *= 1099511628211
	}
	return new(big.Int).SetUint64((h & ((1 << 40) - 1)) + (1 << 41))
}
func racAddr(x interface{}) *big.Int {
	if x == nil {
		return big.NewInt(0)
	}
	v := reflect.ValueOf(x)
	switch v.Kind() {
	case reflect.Ptr, reflect.UnsafePointer:
		if v.IsNil() {
			return big.NewInt(0)
		}
		return new(big.Int).SetUint64(uint64(v.Pointer()))
	}
	return big.NewInt(1)
}
func racIface(x interface{}) interface{} { return x }
func racIdx(xs []int64, i int64) int64 {
	if i < 0 || i >= int64(len(xs)) {
		return 0
	}
	return xs[i]
}
func racIdxB(xs []byte, i int64) byte {
	if i < 0 || i >= int64(len(xs)) {
		return 0
	}
	return xs[i]
}
func racRep(z *BigInt) bool {
	if z == nil {
		return true
	}
	if z._inner == negSentinel && z._inline == [inlineWords]big.Word{} {
		return false
	}
	if z._inner != nil && z._inner != negSentinel && racNegZero(z._inner) {
		return false
	}
	return true
}
func racSameDec(a, b *Decimal) bool {
	return a.Form == b.Form && a.Negative == b.Negative && a.Exponent == b.Exponent && a.Coeff.Cmp(&b.Coeff) == 0
}
func racSame(a, b interface{}) bool {
	switch x := a.(type) {
	case *Decimal:
		y := b.(*Decimal)
		if x == nil || y == nil {
			return x == y
		}
		return racSameDec(x, y)
	case *BigInt:
		y := b.(*BigInt)
		if x == nil || y == nil {
			return x == y
		}
		return x.Cmp(y) == 0
	case *Context:
		y := b.(*Context)
		return *x == *y
	case *ErrDecimal:
		y := b.(*ErrDecimal)
		return x.err == y.err && x.Ctx == y.Ctx && x.Flags == y.Flags
	case *int64:
		return *x == *b.(*int64)
	}
	return reflect.DeepEqual(a, b)
}

// ---- generators (seeded; boundary-heavy pools)

var racCoeffs = []string{"0", "1", "2", "3", "5", "7", "9", "10", "15", "25", "45", "50", "55", "99", "100", "101", "125", "995", "999", "1000", "1234", "9995", "9999", "12345", "99995", "99999", "100000", "123456789", "999999999", "1000000001", "922337203685477580", "922337203685477581", "92233720368547758", "9223372036854775807", "9223372036854775808", "18446744073709551615", "18446744073709551616", "300000001", "5000001", "340282366920938463463374607431768211455", "340282366920938463463374607431768211456", "10000000000000000000000000000000000000001", "99999999999999999999999999999999999999999999"}
var racExps = []int32{0, 0, 0, -1, 1, -2, 2, -3, 3, -5, 5, -7, 7, -8, -9, 10, -10, 19, -20, 38, -40, 150, -160, 200, 301, -129, -130}

func init() {
	// beyond the power-of-ten table (more than 128 digits): all nines, a power of ten, a value just above a rounding
	// tie, a long fraction - seeds Y05, Z01 and Z19 need them to show on the real code
	// 20-digit values around 2^64 (precision 19), a 60-digit coefficient just above a power of ten (digit-count estimates)
	racCoeffs = append(racCoeffs, "12345678901234567890", "10000000000000000000", "1002"+strings.Repeat("0", 56), "1001"+strings.Repeat("0", 53))
	racExps = append(racExps, 59, 56, 3)
	// multiples of 10^19 above 2^64 (a two-word value whose low decimal half is zero: seed I14)
	racCoeffs = append(racCoeffs, "50000000000000000000", "100000000000000000000", "10000000000000000000000000000000000000")
	racCoeffs = append(racCoeffs, strings.Repeat("9", 129), "1"+strings.Repeat("0", 129), "123451"+strings.Repeat("0", 129),
		"7"+strings.Repeat("1234567890", 13)[:129], "777"+strings.Repeat("49", 70))
}
var racTexts = []string{"0", "1", "-1.5", "+2.50", "1e5", "1E-5", ".5", "5.", ".-5", "-.-5", ".+5", "+.5", "1.-5", "-", "+", "", ".", "e5", "1e", "1e+5", "1e-+5", "--1", "+-1", "nan", "NaN123", "snan", "-sNaN9", "nansnan", "inf", "-Infinity", "infinit", "1E-100000", "1e100001", "1e-100001", "123456789012345678901234567890123456789012345", "0.000e-5", "1.2.3", "0x10", "1_000", " 1", "1 ", "9e99999", "12345678901234567890e-20"}
var racModes = []Rounder{RoundDown, RoundHalfUp, RoundHalfEven, RoundCeiling, RoundFloor, RoundHalfDown, RoundUp, Round05Up, "", "bogus"}
var racInts = []int64{0, 1, -1, 2, 3, 5, 9, 10, -10, 100, 127, 128, 1000, 100000, -100000, 100001, -100001, 2147483647, -2147483648, 9223372036854775807, -9223372036854775808, 4294967295}

func genBigInt(rng__ *rand.Rand) *BigInt {
	z := new(BigInt)
	z.SetString(racCoeffs[rng__.Intn(len(racCoeffs))], 10)
	if rng__.Intn(3) == 0 {
		z.Neg(z)
	}
	if rng__.Intn(6) == 0 {
		// heap-resident representation of the same value
		z.Lsh(z, 200)
		z.Rsh(z, 200)
	}
	return z
}
func genDecimal(rng__ *rand.Rand) *Decimal {
	d := new(Decimal)
	d.Coeff.SetString(racCoeffs[rng__.Intn(len(racCoeffs))], 10)
	d.Exponent = racExps[rng__.Intn(len(racExps))]
	if rng__.Intn(40) == 0 {
		d.Exponent = []int32{100000, -100000, 99999, -99990, 50000}[rng__.Intn(5)]
	}
	if rng__.Intn(60) == 0 {
		// exponents below Emin that many-digit (or subnormal) results legitimately carry, and one beyond every limit
		d.Exponent = []int32{-100001, -100013, -100030, 100001}[rng__.Intn(4)]
	}
	d.Negative = rng__.Intn(3) == 0
	switch rng__.Intn(16) {
	case 0:
		d.Form = NaN
	case 1:
		d.Form = NaNSignaling
	case 2:
		d.Form = Infinite
	case 3:
		d.Form = Infinite
		d.Coeff.SetInt64(0)
		d.Exponent = 0
	}
	return d
}
func genContext(rng__ *rand.Rand) *Context {
	c := new(Context)
	c.Precision = []uint32{1, 2, 3, 3, 4, 5, 7, 9, 16, 0, 19, 39}[rng__.Intn(12)]
	c.MinExponent = []int32{0, -1, -2, -5, -5, -10, -20, -100000}[rng__.Intn(8)]
	c.MaxExponent = []int32{5, 10, 20, 100, 100000}[rng__.Intn(5)]
	if int64(c.MaxExponent) < int64(c.Precision) {
		c.MaxExponent = int32(c.Precision)
	}
	c.Rounding = racModes[rng__.Intn(len(racModes))]
	c.Traps = []Condition{0, 0, Inexact, Rounded, DefaultTraps, Clamped, Subnormal, Inexact | Rounded, 4095}[rng__.Intn(9)]
	return c
}
func genErrDecimal(rng__ *rand.Rand) *ErrDecimal {
	e := &ErrDecimal{Ctx: genContext(rng__)}
	if rng__.Intn(4) == 0 {
		e.err = errors.New("pending")
	}
	if rng__.Intn(3) == 0 {
		e.Flags = Condition(rng__.Intn(4096))
	}
	return e
}
func genInt(rng__ *rand.Rand) int64 { return racInts[rng__.Intn(len(racInts))] }
func genBytes(rng__ *rand.Rand) []byte {
	n := []int{0, 0, 1, 2, 8, 9, 16, 17, 40}[rng__.Intn(9)]
	// spare capacity: none, a word or two, or any number of cells up to 48 (an append-like callee that stages data in
	// the spare cells goes wrong only for particular capacities: seed B14)
	spare := rng__.Intn(3) * 8
	if rng__.Intn(2) == 0 {
		spare = rng__.Intn(49)
	}
	bs := make([]byte, n, n+spare)
	for i := range bs {
		bs[i] = byte([]int{0, 1, 255, 128, 7}[rng__.Intn(5)])
	}
	return bs
}
func genWords(rng__ *rand.Rand) []big.Word {
	n := []int{0, 0, 1, 1, 2, 2, 3, 5}[rng__.Intn(8)]
	ws := make([]big.Word, n, n+rng__.Intn(2))
	for i := range ws {
		ws[i] = big.Word([]uint64{0, 0, 1, 1 << 63, 1<<64 - 1, 10, 7766279631452241920}[rng__.Intn(7)])
	}
	return ws
}
// racState is a fmt.State that records what is written and answers flag queries from a fixed set.
type racState struct {
	out          []byte
	flags        string
	wid, prec    int
	hasW, hasP   bool
}
func (s *racState) Write(b []byte) (int, error) { s.out = append(s.out, b...); return len(b), nil }
func (s *racState) Width() (int, bool)          { return s.wid, s.hasW }
func (s *racState) Precision() (int, bool)      { return s.prec, s.hasP }
func (s *racState) Flag(c int) bool             { return strings.IndexByte(s.flags, byte(c)) >= 0 }
// racGrammar builds a grammatical finite numeric string from a random description and returns both.
func racGrammar(rng__ *rand.Rand) (text string, neg, plus bool, z, c *big.Int, dot bool, a *big.Int, hase bool, ech, esg, ez, x, e *big.Int) {
	neg = rng__.Intn(3) == 0
	plus = !neg && rng__.Intn(4) == 0
	nz := rng__.Intn(4)
	c = racBig(racCoeffs[rng__.Intn(len(racCoeffs))])
	digits := strings.Repeat("0", nz) + c.Text(10)
	dot = rng__.Intn(2) == 0
	na := rng__.Intn(len(digits) + 1)
	hase = rng__.Intn(2) == 0
	letter := []byte{'E', 'e'}[rng__.Intn(2)]
	sg := []int64{0, '+', '-'}[rng__.Intn(3)]
	nez := rng__.Intn(3)
	xv := []int64{0, 1, 2, 5, 7, 10, 38, 100, 2000, 99999, 100000, 100001}[rng__.Intn(12)]
	if neg {
		text = "-"
	} else if plus {
		text = "+"
	}
	frac := 0
	if dot {
		text += digits[:na] + "." + digits[na:]
		frac = len(digits) - na
	} else {
		text += digits
	}
	ev := int64(0)
	if hase {
		text += string(letter)
		if sg != 0 {
			text += string(rune(sg))
		}
		text += strings.Repeat("0", nez) + strconv.FormatInt(xv, 10)
		ev = xv
		if sg == '-' {
			ev = -xv
		}
	}
	return text, neg, plus, big.NewInt(int64(nz)), c, dot, big.NewInt(int64(na)), hase, big.NewInt(int64(letter)), big.NewInt(sg), big.NewInt(int64(nez)), big.NewInt(xv), big.NewInt(ev - int64(frac))
}

// racLog: what has been written to the state (old: before the call under test - the harness starts with an empty log)
func racLog(s fmt.State, old bool) []byte {
	if old {
		return nil
	}
	return s.(*racState).out
}
func genState(rng__ *rand.Rand) fmt.State {
	st := &racState{flags: []string{"", "", "+", "-", " ", "#", "0", "+0", "-0", "+-# 0"}[rng__.Intn(10)]}
	st.wid, st.hasW = []int{0, 1, 5, 40}[rng__.Intn(4)], rng__.Intn(2) == 0
	st.prec, st.hasP = []int{0, 1, 5, 40}[rng__.Intn(4)], rng__.Intn(2) == 0
	return st
}
func genVerb(rng__ *rand.Rand) rune {
	if rng__.Intn(8) == 0 {
		return rune(genInt(rng__))
	}
	vs := []rune("bdoOxXsvqeEfFgGcUtTpz%")
	return vs[rng__.Intn(len(vs))]
}
// genAny: what database/sql hands to a Scanner, and a few things it does not
func genAny(rng__ *rand.Rand) interface{} {
	switch rng__.Intn(8) {
	case 0:
		return nil
	case 1:
		return []byte(racTexts[rng__.Intn(len(racTexts))])
	case 2:
		return racTexts[rng__.Intn(len(racTexts))]
	case 3:
		return genInt(rng__)
	case 4:
		return []float64{0, -0.5, 1e300, 1e-320, 123.456, -1}[rng__.Intn(6)]
	case 5:
		return genBytes(rng__)
	case 6:
		return true
	}
	return struct{}{}
}
func genNullDecimal(rng__ *rand.Rand) *NullDecimal {
	n := &NullDecimal{Valid: rng__.Intn(2) == 0}
	d := genDecimal(rng__)
	n.Decimal.Form, n.Decimal.Negative, n.Decimal.Exponent = d.Form, d.Negative, d.Exponent
	n.Decimal.Coeff.Set(&d.Coeff)
	return n
}
func cpNull(n *NullDecimal) *NullDecimal {
	if n == nil {
		return nil
	}
	c := &NullDecimal{Valid: n.Valid}
	c.Decimal.Form, c.Decimal.Negative, c.Decimal.Exponent = n.Decimal.Form, n.Decimal.Negative, n.Decimal.Exponent
	c.Decimal.Coeff.Set(&n.Decimal.Coeff)
	return c
}
func genSlice(rng__ *rand.Rand) []int64 {
	n := rng__.Intn(4)
	xs := make([]int64, n)
	for i := range xs {
		xs[i] = []int64{0, 1, -1, 2, -3, 5, -7, 100000, -100000, 100001, -100001}[rng__.Intn(11)]
	}
	return xs
}
// racRescale returns the same (or a neighbouring) value with the coefficient scaled by a power of ten:
// numerically equal or adjacent operands with very different exponents.
func racRescale(d *Decimal, rng__ *rand.Rand) *Decimal {
	n := cpDec(d)
	k := []int64{1, 2, 5, 40, 129, 130, 200}[rng__.Intn(7)]
	p := new(BigInt).Exp(NewBigInt(10), NewBigInt(k), nil)
	n.Coeff.Mul(&n.Coeff, p)
	n.Exponent -= int32(k)
	switch rng__.Intn(3) {
	case 0:
		n.Coeff.Add(&n.Coeff, NewBigInt(1))
	case 1:
		n.Coeff.Mul(&n.Coeff, NewBigInt(2))
	}
	return n
}
func cpDec(d *Decimal) *Decimal {
	if d == nil {
		return nil
	}
	n := new(Decimal)
	n.Form, n.Negative, n.Exponent = d.Form, d.Negative, d.Exponent
	n.Coeff.Set(&d.Coeff)
	return n
}
func cpBig(b *BigInt) *BigInt {
	if b == nil {
		return nil
	}
	return new(BigInt).Set(b)
}
func cpCtx(c *Context) *Context {
	if c == nil {
		return nil
	}
	n := *c
	return &n
}
func cpErr(e *ErrDecimal) *ErrDecimal {
	if e == nil {
		return nil
	}
	n := *e
	return &n
}
func cpI64(p *int64) *int64 {
	if p == nil {
		return nil
	}
	n := *p
	return &n
}
func showDec(d *Decimal) string {
	if d == nil {
		return "nil"
	}
	c := d.Coeff.String()
	if len(c) > 50 {
		c = c[:20] + "..." + strconv.Itoa(len(c)) + "digits"
	}
	return fmt.Sprintf("{Form:%v Neg:%v Coeff:%s Exp:%d}", d.Form, d.Negative, c, d.Exponent)
}
func showCtx(c *Context) string {
	if c == nil {
		return "nil"
	}
	return fmt.Sprintf("{P:%d Emax:%d Emin:%d Traps:%d Rounding:%q}", c.Precision, c.MaxExponent, c.MinExponent, uint32(c.Traps), string(c.Rounding))
}
func showBig(b *BigInt) string {
	if b == nil {
		return "nil"
	}
	s := b.String()
	if len(s) > 50 {
		s = s[:20] + "..." + strconv.Itoa(len(s)) + "digits"
	}
	return fmt.Sprintf("%s(inline=%v)", s, b.isInline())
}
func racEnvInt(name string, def int) int {
	if v, err := strconv.Atoi(os.Getenv(name)); err == nil {
		return v
	}
	return def
}
`

// racParam describes how one parameter is generated, copied and shown.
type racParam struct {
	name, goType, gen, cp, show string
	ptrType                     string // for aliasing groups
}

func (W *World) racParams(fn *ssa.Function) ([]racParam, bool) {
	var out []racParam
	res := fn.Signature.Results()
	for i := 0; i < res.Len(); i++ {
		if strings.Contains(goTypeName(res.At(i).Type()), "/") {
			return nil, false // a result type the harness cannot name
		}
	}
	for _, p := range fn.Params {
		t := p.Type()
		n := p.Name()
		switch n {
		case "fmt", "big", "rand", "os", "strings", "time", "errors", "reflect", "strconv", "testing":
			return nil, false // the parameter would shadow a package the harness uses
		}
		rp := racParam{name: n}
		switch {
		case isPtrTo(t, "Decimal"):
			rp.goType, rp.gen, rp.cp, rp.show, rp.ptrType = "*Decimal", "genDecimal(rng__)", "cpDec(%s)", "showDec(%s)", "Decimal"
		case isPtrTo(t, "Context"):
			rp.goType, rp.gen, rp.cp, rp.show, rp.ptrType = "*Context", "genContext(rng__)", "cpCtx(%s)", "showCtx(%s)", "Context"
		case isPtrTo(t, "BigInt"):
			rp.goType, rp.gen, rp.cp, rp.show, rp.ptrType = "*BigInt", "genBigInt(rng__)", "cpBig(%s)", "showBig(%s)", "BigInt"
		case isPtrTo(t, "NullDecimal"):
			rp.goType, rp.gen, rp.cp, rp.show, rp.ptrType = "*NullDecimal", "genNullDecimal(rng__)", "cpNull(%s)", "fmt.Sprintf(\"{Valid:%%v %%s}\", %[1]s.Valid, showDec(&%[1]s.Decimal))", "NullDecimal"
		case isNamed(t, "Decimal"):
			// a by-value receiver: the harness hands over a shallow copy, exactly what a caller's d.Value() does
			rp.goType, rp.gen, rp.show = "Decimal", "*genDecimal(rng__)", "showDec(&%s)"
		case isNamed(t, "NullDecimal"):
			rp.goType, rp.gen, rp.show = "NullDecimal", "*genNullDecimal(rng__)", "fmt.Sprint(%s.Valid)"
		case isPtrTo(t, "ErrDecimal"):
			rp.goType, rp.gen, rp.cp, rp.show, rp.ptrType = "*ErrDecimal", "genErrDecimal(rng__)", "cpErr(%s)", "fmt.Sprintf(\"%%+v\", *%s)", "ErrDecimal"
		case isCondition(t):
			rp.goType, rp.gen, rp.show = "Condition", "Condition(rng__.Intn(4096))", "fmt.Sprint(uint32(%s))"
		case isNamed(t, "Rounder"):
			rp.goType, rp.gen, rp.show = "Rounder", "racModes[rng__.Intn(len(racModes))]", "fmt.Sprintf(\"%%q\", string(%s))"
		default:
			switch u := t.Underlying().(type) {
			case *types.Basic:
				switch {
				case u.Info()&types.IsBoolean != 0:
					rp.goType, rp.gen, rp.show = goTypeName(t), "rng__.Intn(2) == 0", "fmt.Sprint(%s)"
				case u.Kind() == types.Int32 && goTypeName(t) == "rune":
					rp.goType, rp.gen, rp.show = "rune", "genVerb(rng__)", "fmt.Sprintf(\"%%q\", %s)"
				case u.Info()&types.IsInteger != 0:
					rp.goType, rp.gen, rp.show = goTypeName(t), goTypeName(t)+"(genInt(rng__))", "fmt.Sprint(%s)"
				case u.Info()&types.IsString != 0:
					rp.goType, rp.gen, rp.show = "string", "racTexts[rng__.Intn(len(racTexts))]", "fmt.Sprintf(\"%%q\", %s)"
				default:
					return nil, false
				}
			case *types.Slice:
				if b, ok := u.Elem().(*types.Basic); ok && b.Kind() == types.Int64 {
					rp.goType, rp.gen, rp.show = "[]int64", "genSlice(rng__)", "fmt.Sprint(%s)"
				} else if b, ok := u.Elem().(*types.Basic); ok && (b.Kind() == types.Uint8 || b.Kind() == types.Byte) {
					rp.goType, rp.gen, rp.show = "[]byte", "genBytes(rng__)", "fmt.Sprint(%s)"
				} else if nm, ok := u.Elem().(*types.Named); ok && nm.Obj().Name() == "Word" && nm.Obj().Pkg() != nil && nm.Obj().Pkg().Path() == "math/big" {
					rp.goType, rp.gen, rp.show = "[]big.Word", "genWords(rng__)", "fmt.Sprint(%s)"
				} else {
					return nil, false
				}
			case *types.Pointer:
				if isMathBigInt(u.Elem()) {
					rp.goType, rp.gen, rp.cp, rp.show = "*big.Int", "racBig(racCoeffs[rng__.Intn(len(racCoeffs))])", "new(big.Int).Set(%s)", "%s.String()"
					if true {
						rp.gen = "func() *big.Int { v := racBig(racCoeffs[rng__.Intn(len(racCoeffs))]); if rng__.Intn(3) == 0 { v.Neg(v) }; return v }()"
					}
				} else if nm, ok := u.Elem().(*types.Named); ok && nm.Obj().Name() == "Rand" && nm.Obj().Pkg() != nil && nm.Obj().Pkg().Path() == "math/rand" {
					rp.goType, rp.gen, rp.show = "*rand.Rand", "rand.New(rand.NewSource(int64(rng__.Intn(1 << 20))))", "fmt.Sprint(%s != nil)"
				} else if b, ok := u.Elem().(*types.Basic); ok && b.Kind() == types.Int64 {
					rp.goType, rp.gen, rp.cp, rp.show = "*int64", "func() *int64 { v := genInt(rng__); return &v }()", "cpI64(%s)", "fmt.Sprint(*%s)"
				} else {
					return nil, false
				}
			case *types.Interface:
				if u.NumMethods() == 0 {
					rp.goType, rp.gen, rp.show = "interface{}", "genAny(rng__)", "fmt.Sprintf(\"%%T(%%v)\", %[1]s, %[1]s)"
				} else if nm, ok := t.(*types.Named); ok && nm.Obj().Name() == "State" && nm.Obj().Pkg() != nil && nm.Obj().Pkg().Path() == "fmt" {
					rp.goType, rp.gen, rp.show = "fmt.State", "genState(rng__)", "fmt.Sprintf(\"%%+v\", *%s.(*racState))"
				} else {
					return nil, false
				}
			default:
				return nil, false
			}
		}
		out = append(out, rp)
	}
	return out, true
}

func isPtrTo(t types.Type, name string) bool {
	p, ok := t.Underlying().(*types.Pointer)
	return ok && isNamed(p.Elem(), name)
}

// racTest generates the in-package test that searches for (or replays) a concrete failing input.
func (W *World) racTest(fn *ssa.Function, fc *FuncContract) (string, error) {
	params, ok := W.racParams(fn)
	if !ok {
		return "", fmt.Errorf("parameters of %s cannot be generated", fc.Name)
	}
	var sb strings.Builder
	sb.WriteString(racPrelude)
	counter := 0
	// A contract with the ghost variables gneg, gC, gE, gech, gform and a text parameter describes a parser: most trials
	// hand it the text the formatter writes for a generated decimal, with the ghosts set to that decimal.
	ghostText := ""
	if len(fc.Ghosts) > 0 {
		names := map[string]bool{}
		for _, g := range fc.Ghosts {
			names[g.Name] = true
		}
		if names["gneg"] && names["gC"] && names["gE"] {
			for i, p := range fn.Params {
				if isString(p.Type()) {
					ghostText = params[i].name + " = gtext__"
				} else if it, ok := p.Type().Underlying().(*types.Interface); ok && it.NumMethods() == 0 {
					ghostText = "if rng__.Intn(2) == 0 { " + params[i].name + " = gtext__ } else { " + params[i].name + " = []byte(gtext__) }"
				} else if sl, ok := p.Type().Underlying().(*types.Slice); ok {
					if b, isB := sl.Elem().Underlying().(*types.Basic); isB && b.Kind() == types.Uint8 {
						ghostText = params[i].name + " = []byte(gtext__)"
					}
				}
			}
		}
	}
	newEnv := func(post bool) *racEnv {
		e := &racEnv{W: W, vars: map[string]gval{}, params: map[string]bool{}, n: &counter, layer1: fc.Layer1}
		for i, p := range fn.Params {
			k, el := kindOfGo(p.Type())
			v := wrapScalar(params[i].name, p.Type())
			v.k, v.elem = k, el
			if k == gRef && params[i].cp != "" && post {
				v.o = "old_" + params[i].name
			}
			if k == gRef || k == gSlice {
				v.s = params[i].name
			}
			e.vars[params[i].name] = v
			e.params[params[i].name] = true
		}
		if ghostText != "" {
			// the ghost variables of a parser contract: the decimal whose text was handed in, and the description of a
			// grammatical text (sign, leading zeros, point position, exponent part)
			for _, g := range []string{"gC", "gE", "gech", "gform", "gz", "ga", "gesg", "gez", "gX"} {
				e.vars[g] = gval{s: g + "__", k: gInt}
			}
			for _, g := range []string{"gneg", "gplus", "gdot", "ghase"} {
				e.vars[g] = gval{s: g + "__", k: gBool}
			}
		}
		return e
	}
	compile := func(e *racEnv, x Expr) (s string, err error) {
		defer func() {
			if r := recover(); r != nil {
				err = fmt.Errorf("%v", r)
			}
		}()
		return e.b(x), nil
	}
	sb.WriteString("\nfunc TestVerifReplay(tt__ *testing.T) {\n")
	sb.WriteString("\tseed__ := int64(racEnvInt(\"VERIF_SEED\", 1))\n\ttrials__ := racEnvInt(\"RAC_TRIALS\", 30000)\n\tonly__ := racEnvInt(\"RAC_ONLY\", -1)\n")
	sb.WriteString("\tdone_trials__ := 0\n\tglobals0__ := racGlobals()\n")
	sb.WriteString("\tdeadline__ := time.Now().Add(time.Duration(racEnvInt(\"RAC_SECONDS\", 25)) * time.Second)\n")
	sb.WriteString("\tfor trial__ := 0; trial__ < trials__; trial__++ {\n\t\tif time.Now().After(deadline__) { break }\n")
	sb.WriteString("\t\trng__ := rand.New(rand.NewSource(seed__*1000003 + int64(trial__)))\n\t\t_ = rng__\n")
	for _, p := range params {
		fmt.Fprintf(&sb, "\t\tvar %s %s = %s\n\t\t_ = %s\n", p.name, p.goType, p.gen, p.name)
	}
	// nil for nilable pointers, aliasing among same-typed pointers
	for _, p := range params {
		if fc.Nilable[p.name] {
			fmt.Fprintf(&sb, "\t\tif rng__.Intn(4) == 0 { %s = nil }\n", p.name)
		}
	}
	for i := range params {
		for j := i + 1; j < len(params); j++ {
			if params[i].ptrType != "" && params[i].ptrType == params[j].ptrType {
				fmt.Fprintf(&sb, "\t\tif rng__.Intn(4) == 0 { %s = %s }\n", params[j].name, params[i].name)
				if params[i].ptrType == "Decimal" {
					fmt.Fprintf(&sb, "\t\tif %s != nil && %s != nil && rng__.Intn(5) == 0 { if rng__.Intn(2) == 0 { %s = racRescale(%s, rng__) } else { %s = racRescale(%s, rng__) } }\n", params[i].name, params[j].name, params[j].name, params[i].name, params[i].name, params[j].name)
				}
			}
		}
	}
	if ghostText != "" {
		sb.WriteString("\t\tgd__ := genDecimal(rng__)\n\t\tgverb__ := []byte{'G', 'G', 'g', 'E', 'e'}[rng__.Intn(5)]\n\t\tgtext__ := gd__.Text(gverb__)\n")
		sb.WriteString("\t\tif rng__.Intn(8) != 0 { " + ghostText + " }\n")
		sb.WriteString("\t\tgneg__, gC__, gE__, gform__ := gd__.Negative, gd__.Coeff.MathBigInt(), big.NewInt(int64(gd__.Exponent)), big.NewInt(int64(gd__.Form))\n")
		sb.WriteString("\t\tgech__ := big.NewInt(int64(gverb__))\n\t\tif gverb__ == 'G' { gech__ = big.NewInt(69) } else if gverb__ == 'g' { gech__ = big.NewInt(101) }\n")
		// every other trial: a grammatical numeric string built from its description (leading zeros, a point anywhere,
		// an exponent part with optional sign and leading zeros, either letter, an optional '+')
		sb.WriteString("\t\tgplus__, gdot__, ghase__ := false, false, false\n\t\tgz__, ga__, gesg__, gez__, gX__ := big.NewInt(0), big.NewInt(0), big.NewInt(0), big.NewInt(0), big.NewInt(0)\n")
		sb.WriteString("\t\tif rng__.Intn(2) == 0 {\n\t\t\tgtext__, gneg__, gplus__, gz__, gC__, gdot__, ga__, ghase__, gech__, gesg__, gez__, gX__, gE__ = racGrammar(rng__)\n\t\t\tgform__ = big.NewInt(0)\n\t\t\t" + ghostText + "\n\t\t}\n")
		sb.WriteString("\t\t_, _, _, _, _, _, _, _, _, _, _, _, _ = gneg__, gC__, gE__, gform__, gech__, gplus__, gdot__, ghase__, gz__, ga__, gesg__, gez__, gX__\n")
	}
	sb.WriteString("\t\tif only__ >= 0 && trial__ != only__ { continue }\n")
	// non-nil defaults
	for i, p := range fn.Params {
		if _, isPtr := p.Type().Underlying().(*types.Pointer); isPtr && !fc.Nilable[params[i].name] {
			fmt.Fprintf(&sb, "\t\tif %s == nil { continue }\n", params[i].name)
		}
	}
	// requires
	pre := newEnv(false)
	for _, rq := range append(append([]*Clause{}, fc.Requires...), fc.Sample...) {
		s, err := compile(pre, rq.E)
		if err != nil {
			continue
		}
		fmt.Fprintf(&sb, "\t\tif !(%s) { continue }\n", s)
	}
	// describe + snapshot
	sb.WriteString("\t\tdesc__ := \"\"\n")
	for _, p := range params {
		fmt.Fprintf(&sb, "\t\tdesc__ += \"%s=\" + %s + \" \"\n", p.name, fmt.Sprintf(p.show, p.name))
	}
	for i := range params {
		for j := i + 1; j < len(params); j++ {
			if params[i].ptrType != "" && params[i].ptrType == params[j].ptrType {
				fmt.Fprintf(&sb, "\t\tif %s == %s { desc__ += \"[%s==%s] \" }\n", params[i].name, params[j].name, params[i].name, params[j].name)
			}
		}
	}
	for _, p := range params {
		if p.cp != "" {
			fmt.Fprintf(&sb, "\t\told_%s := %s\n\t\t_ = old_%s\n", p.name, fmt.Sprintf(p.cp, p.name), p.name)
		}
	}
	// call with panic recovery and a watchdog
	sig := fn.Signature
	nres := sig.Results().Len()
	var rets []string
	for i := 0; i < nres; i++ {
		rets = append(rets, fmt.Sprintf("ret%d", i))
		fmt.Fprintf(&sb, "\t\tvar ret%d %s\n\t\t_ = ret%d\n", i, goTypeName(sig.Results().At(i).Type()), i)
	}
	var args []string
	for _, p := range params {
		args = append(args, p.name)
	}
	call := ""
	if sig.Recv() != nil {
		a := args[1:]
		if sig.Variadic() && len(a) > 0 {
			a[len(a)-1] += "..."
		}
		call = args[0] + "." + fn.Name() + "(" + strings.Join(a, ", ") + ")"
	} else {
		if sig.Variadic() && len(args) > 0 {
			args[len(args)-1] += "..."
		}
		call = fn.Name() + "(" + strings.Join(args, ", ") + ")"
	}
	assign := ""
	if nres > 0 {
		assign = strings.Join(rets, ", ") + " = "
	}
	sb.WriteString("\t\tpanicked__ := interface{}(nil)\n\t\tdone__ := make(chan bool, 1)\n")
	fmt.Fprintf(&sb, "\t\tgo func() {\n\t\t\tdefer func() { panicked__ = recover(); done__ <- true }()\n\t\t\t%s%s\n\t\t}()\n", assign, call)
	sb.WriteString("\t\tselect {\n\t\tcase <-done__:\n\t\tcase <-time.After(10 * time.Second):\n\t\t\ttt__.Fatalf(\"RACFAIL trial=%d kind=hang input: %s\", trial__, desc__)\n\t\t}\n")
	sb.WriteString("\t\tif panicked__ != nil {\n\t\t\ttt__.Fatalf(\"RACFAIL trial=%d kind=panic(%v) input: %s\", trial__, panicked__, desc__)\n\t\t}\n")
	// ensures
	post := newEnv(true)
	for i := 0; i < nres; i++ {
		v := wrapScalar(fmt.Sprintf("ret%d", i), sig.Results().At(i).Type())
		if _, isIface := sig.Results().At(i).Type().Underlying().(*types.Interface); isIface {
			v = gval{s: fmt.Sprintf("ret%d", i), k: gRef}
		}
		post.vars[fmt.Sprintf("ret%d", i)] = v
		if i == 0 {
			post.vars["ret"] = v
			if _, clash := post.vars["result"]; !clash {
				post.vars["result"] = v
			}
		}
	}
	for j, en := range fc.Ensures {
		label := en.Name
		if label == "" {
			label = fmt.Sprintf("%d", j+1)
		}
		if mentionsUnknown(W, en.E, svalKeys(post.vars)) {
			continue
		}
		s, err := compile(post, en.E)
		if err != nil {
			fmt.Fprintf(&sb, "\t\t// clause %s not compiled: %v\n", label, strings.ReplaceAll(err.Error(), "\n", " "))
			continue
		}
		fmt.Fprintf(&sb, "\t\tif !(%s) {\n\t\t\ttt__.Fatalf(\"RACFAIL trial=%%d kind=post/%s input: %%s results: %%s\", trial__, desc__, fmt.Sprint(", s, label)
		var shows []string
		for i := 0; i < nres; i++ {
			shows = append(shows, fmt.Sprintf("ret%d", i))
		}
		for _, p := range params {
			if p.ptrType == "Decimal" {
				shows = append(shows, fmt.Sprintf("\" %s'=\"+showDec(%s)", p.name, p.name))
			}
			if p.ptrType == "BigInt" {
				shows = append(shows, fmt.Sprintf("\" %s'=\"+showBig(%s)", p.name, p.name))
			}
		}
		if len(shows) == 0 {
			shows = []string{"\"\""}
		}
		sb.WriteString(strings.Join(shows, ", "))
		sb.WriteString("))\n\t\t}\n")
	}
	// frame: operands outside the assigns set are unchanged
	assigned := map[string]bool{}
	for _, ax := range fc.Assigns {
		root := rootIdent(ax)
		assigned[root] = true
	}
	if fc.HasAssigns {
		for _, p := range params {
			if p.cp == "" || assigned[p.name] {
				continue
			}
			// an operand aliased with an assigned parameter may change
			cond := "true"
			for a := range assigned {
				for _, q := range params {
					if q.name == a && q.ptrType == p.ptrType && p.ptrType != "" {
						cond += fmt.Sprintf(" && %s != %s", p.name, a)
					}
					if q.name == a && q.ptrType == "Decimal" && p.ptrType == "BigInt" {
						cond += fmt.Sprintf(" && %s != &%s.Coeff", p.name, a)
					}
				}
			}
			fmt.Fprintf(&sb, "\t\tif %s != nil && %s && !racSame(%s, old_%s) {\n\t\t\ttt__.Fatalf(\"RACFAIL trial=%%d kind=frame/%s input: %%s\", trial__, desc__)\n\t\t}\n", p.name, cond, p.name, p.name, p.name)
		}
	}
	sb.WriteString("\t\tif g__ := racGlobals(); g__ != globals0__ {\n\t\t\ttt__.Fatalf(\"RACFAIL trial=%d kind=globals (a shared table or constant of the package was modified) input: %s\", trial__, desc__)\n\t\t}\n")
	W.racDifferential(&sb, fn, fc, params, call, nres)
	sb.WriteString("\t\tdone_trials__++\n\t}\n\tfmt.Printf(\"RACDONE trials=%d\\n\", done_trials__)\n}\n")
	return sb.String(), nil
}

// racDifferential appends the class D experiment: the exported operation is re-run on private copies of
// the operands (as they were at entry) with (0) a garbage destination, (1) another garbage destination,
// (2..) the destination aliasing each operand of its type in turn; destination and results must agree.
func (W *World) racDifferential(sb *strings.Builder, fn *ssa.Function, fc *FuncContract, params []racParam, call string, nres int) {
	if len(fc.Outs) == 0 || fc.Layer1 || !fc.Exported {
		return
	}
	for _, rq := range fc.Requires {
		if strings.Contains(rq.Src, "!=") && !strings.Contains(rq.Src, "!= nil") {
			return // the contract restricts aliasing: not a candidate
		}
	}
	isOutP := map[string]bool{}
	for _, o := range fc.Outs {
		isOutP[o] = true
	}
	var outs, aliasOps []racParam
	for _, p := range params {
		if isOutP[p.name] {
			if p.ptrType != "Decimal" {
				return
			}
			outs = append(outs, p)
		}
	}
	if len(outs) != 1 {
		return
	}
	for _, p := range params {
		if !isOutP[p.name] && p.ptrType == "Decimal" {
			aliasOps = append(aliasOps, p)
		}
	}
	d := outs[0].name
	sig := fn.Signature
	fmt.Fprintf(sb, "\t\tif msg__ := func() (m__ string) {\n\t\t\tdefer func() { if r := recover(); r != nil { m__ = fmt.Sprintf(\"differential run panicked: %%v\", r) } }()\n")
	fmt.Fprintf(sb, "\t\t\trun__ := func(mode__ int) (string, string, bool) {\n\t\t\t\trngd__ := rand.New(rand.NewSource(int64(mode__)*7919 + 13))\n\t\t\t\t_ = rngd__\n")
	for _, p := range params {
		if isOutP[p.name] {
			continue
		}
		if p.cp != "" {
			fmt.Fprintf(sb, "\t\t\t\tvar %s %s\n\t\t\t\tif old_%s != nil { %s = %s }\n", p.name, p.goType, p.name, p.name, fmt.Sprintf(p.cp, "old_"+p.name))
		} else {
			fmt.Fprintf(sb, "\t\t\t\t%s := %s\n", p.name, p.name)
		}
		fmt.Fprintf(sb, "\t\t\t\t_ = %s\n", p.name)
	}
	fmt.Fprintf(sb, "\t\t\t\tvar %s *Decimal\n\t\t\t\tswitch mode__ {\n\t\t\t\tcase 0, 1:\n\t\t\t\t\t%s = genDecimal(rngd__)\n", d, d)
	for i, q := range aliasOps {
		fmt.Fprintf(sb, "\t\t\t\tcase %d:\n\t\t\t\t\t%s = %s\n", i+2, d, q.name)
	}
	fmt.Fprintf(sb, "\t\t\t\t}\n\t\t\t\tif %s == nil { return \"\", \"\", false }\n", d)
	var rets, shows []string
	errNil := "true"
	for i := 0; i < nres; i++ {
		rets = append(rets, fmt.Sprintf("r%d__", i))
		t := sig.Results().At(i).Type()
		switch {
		case isCondition(t):
			shows = append(shows, fmt.Sprintf("fmt.Sprint(uint32(r%d__))", i))
		case types.Identical(t, types.Universe.Lookup("error").Type()):
			shows = append(shows, fmt.Sprintf("fmt.Sprint(r%d__ != nil)", i))
			errNil += fmt.Sprintf(" && r%d__ == nil", i)
		default:
			if _, isPtr := t.Underlying().(*types.Pointer); isPtr {
				shows = append(shows, "\"ptr\"")
			} else {
				shows = append(shows, fmt.Sprintf("fmt.Sprint(r%d__)", i))
			}
		}
	}
	assign := ""
	if nres > 0 {
		assign = strings.Join(rets, ", ") + " := "
	}
	fmt.Fprintf(sb, "\t\t\t\t%s%s\n", assign, call)
	for i := 0; i < nres; i++ {
		fmt.Fprintf(sb, "\t\t\t\t_ = r%d__\n", i)
	}
	if len(shows) == 0 {
		shows = []string{"\"\""}
	}
	fmt.Fprintf(sb, "\t\t\t\treturn showDec(%s), strings.Join([]string{%s}, \",\"), %s\n\t\t\t}\n", d, strings.Join(shows, ", "), errNil)
	fmt.Fprintf(sb, "\t\t\td0__, r0__, ok0__ := run__(0)\n\t\t\tfor mode__ := 1; mode__ < %d; mode__++ {\n\t\t\t\tdm__, rm__, _ := run__(mode__)\n\t\t\t\tif dm__ == \"\" && rm__ == \"\" { continue }\n", 2+len(aliasOps))
	fmt.Fprintf(sb, "\t\t\t\tif rm__ != r0__ || (ok0__ && dm__ != d0__) {\n\t\t\t\t\treturn fmt.Sprintf(\"mode %%d (1: other previous contents of the destination; 2..: destination aliases operand #mode-1): reference %%s [%%s], variant %%s [%%s]\", mode__, d0__, r0__, dm__, rm__)\n\t\t\t\t}\n\t\t\t}\n\t\t\treturn \"\"\n\t\t}(); msg__ != \"\" {\n")
	fmt.Fprintf(sb, "\t\t\ttt__.Fatalf(\"RACFAIL trial=%%d kind=differential input: %%s %%s\", trial__, desc__, msg__)\n\t\t}\n")
}

func svalKeys(m map[string]gval) map[string]SVal {
	out := map[string]SVal{}
	for k := range m {
		out[k] = SVal{}
	}
	return out
}

func rootIdent(x Expr) string {
	switch x := x.(type) {
	case *EIdent:
		return x.Name
	case *EField:
		return rootIdent(x.X)
	case *EUn:
		return rootIdent(x.X)
	case *EIndex:
		return rootIdent(x.X)
	}
	return ""
}

// runRAC writes the test next to nothing in the repository (go test -overlay) and runs it.
func runRAC(W *World, src string, env []string, timeout time.Duration) (string, error) {
	dir, err := os.MkdirTemp("", "apdvc-rac")
	if err != nil {
		return "", err
	}
	defer os.RemoveAll(dir)
	testFile := filepath.Join(dir, "zz_verif_replay_test.go")
	os.WriteFile(testFile, []byte(src), 0o644)
	if k := os.Getenv("APDVC_KEEP"); k != "" {
		os.WriteFile(k, []byte(src), 0o644)
	}
	ov := map[string]map[string]string{"Replace": {filepath.Join(W.repoDir, "zz_verif_replay_test.go"): testFile}}
	ovData, _ := json.Marshal(ov)
	ovFile := filepath.Join(dir, "overlay.json")
	os.WriteFile(ovFile, ovData, 0o644)
	ctx, cancel := context.WithTimeout(context.Background(), timeout)
	defer cancel()
	cmd := exec.CommandContext(ctx, "go", "test", "-overlay", ovFile, "-vet=off", "-count=1", "-v", "-timeout", "900s", "-run", "TestVerifReplay$", ".")
	cmd.Dir = W.repoDir
	cmd.Env = append(append(os.Environ(), "GOFLAGS=-mod=mod", "GOPROXY=off", "GOSUMDB=off", "GOTOOLCHAIN=local"), env...)
	var out bytes.Buffer
	cmd.Stdout = &out
	cmd.Stderr = &out
	err = cmd.Run()
	return out.String(), err
}

// concretise searches for a concrete input on which the real code violates the contract of the
// function the failed obligation belongs to, and returns it as a replayable witness.
func concretise(W *World, o *Obligation, timeout time.Duration) *Witness {
	fc := W.spec.Funcs[o.Fn]
	fn := W.funcs[o.Fn]
	if fc == nil || fn == nil {
		return nil
	}
	src, err := W.racTest(fn, fc)
	if err != nil {
		return &Witness{Desc: map[string]interface{}{"note": err.Error()}}
	}
	seed := os.Getenv("VERIF_SEED")
	if seed == "" {
		seed = "1"
	}
	out, _ := runRAC(W, src, []string{"VERIF_SEED=" + seed}, 150*time.Second)
	w := &Witness{Output: truncate(out, 3000)}
	keep := filepath.Join(verifDir(), "replays", "tests")
	os.MkdirAll(keep, 0o755)
	w.TestFile = filepath.Join(keep, sanitize(o.Fn)+"_replay_test.go")
	os.WriteFile(w.TestFile, []byte(src), 0o644)
	for _, line := range strings.Split(out, "\n") {
		if i := strings.Index(line, "RACFAIL "); i >= 0 {
			msg := line[i+8:]
			if strings.Contains(msg, "kind=hang") && (strings.Contains(o.Name, "/errexit") || strings.Contains(o.Name, "/decreases")) {
				// the failed obligation is a termination obligation and the real code did not return on this input
				w.Confirmed = true
				trial := ""
				fmt.Sscanf(msg, "trial=%s", &trial)
				w.Desc = map[string]interface{}{"failing_input": msg, "trial": trial, "seed": seed, "function": o.Fn, "note": "the call did not return within the 10 s watchdog"}
				return w
			}
			if strings.Contains(msg, "kind=hang") {
				// a run that exceeds the watchdog may be slow rather than hung: reported, not counted as a confirmation
				w.Desc = map[string]interface{}{"note": "an input exceeded the 10 s watchdog (slow or hung): " + msg, "seed": seed}
				return w
			}
			w.Confirmed = true
			trial := ""
			fmt.Sscanf(msg, "trial=%s", &trial)
			w.Desc = map[string]interface{}{"failing_input": msg, "trial": trial, "seed": seed, "function": o.Fn}
			return w
		}
	}
	w.Desc = map[string]interface{}{"note": "no concrete failing input among the sampled inputs", "seed": seed}
	return w
}

func cmdReplay(args []string) {
	if len(args) != 1 {
		die("usage: apdvc replay <path>")
	}
	data, err := os.ReadFile(args[0])
	if err != nil {
		die("%v", err)
	}
	var rec map[string]interface{}
	if err := json.Unmarshal(data, &rec); err != nil {
		die("%v", err)
	}
	fmt.Printf("obligation: %v\nclause: %v\nsolver: %v (%v)\n", rec["obligation"], rec["clause"], rec["solver_status"], rec["backend"])
	ce, _ := rec["counterexample"].(map[string]interface{})
	tf, _ := rec["replay_test"].(string)
	if ce == nil || tf == "" || ce["trial"] == nil {
		fmt.Println("no concrete failing input was recorded (no-failing-input-found); solver output follows")
		fmt.Println(rec["solver_output"])
		os.Exit(1)
	}
	W, err := LoadWorld(repoDir())
	if err != nil {
		die("load: %v", err)
	}
	src, err := os.ReadFile(tf)
	if err != nil {
		die("%v", err)
	}
	out, _ := runRAC(W, string(src), []string{"VERIF_SEED=" + fmt.Sprint(ce["seed"]), "RAC_ONLY=" + fmt.Sprint(ce["trial"])}, 150*time.Second)
	fmt.Println(out)
	if strings.Contains(out, "RACFAIL") {
		fmt.Println("REPLAY: the recorded input still violates the contract on the current tree")
		os.Exit(1)
	}
	fmt.Println("REPLAY: the recorded input no longer fails on the current tree")
}
