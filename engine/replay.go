package main

import (
	"fmt"
	"os"
	"time"
)

type Witness struct {
	Desc      map[string]interface{}
	TestFile  string
	Output    string
	Confirmed bool
}

// concretise tries to turn a failed obligation into a concrete input that fails on the real code.
func concretise(W *World, o *Obligation, timeout time.Duration) *Witness {
	return nil
}

func cmdReplay(args []string) {
	if len(args) != 1 {
		die("usage: apdvc replay <path>")
	}
	data, err := os.ReadFile(args[0])
	if err != nil {
		die("%v", err)
	}
	fmt.Println(string(data))
	_ = time.Second
}
