package main

import (
	"fmt"
	"go/constant"
	"go/token"
	"go/types"
	"os"
	"regexp"
	"sort"
	"strings"

	"golang.org/x/tools/go/ssa"
)

// leafRef is one assignable scalar location.
type leafRef struct {
	Key  string
	Idx  Term
	Sort Sort
	Type types.Type
}

// lvalue resolves an assigns-expression to the scalar locations it denotes.
func (g *Gen) lvalue(e *Env, x Expr) []leafRef {
	objLeaves := func(a Term, t types.Type) []leafRef {
		var out []leafRef
		if s, ok := scalarSort(t); ok {
			return []leafRef{{cellKey(t), a, s, t}}
		}
		for _, lf := range g.L.leaves(t, 0, "") {
			out = append(out, leafRef{lf.Key, Add(a, IntLit(lf.Off)), lf.Sort, lf.Type})
		}
		if g.L.layer1 && isBigInt(t) {
			// layer 1: the value of a heap-form BigInt lives in its math/big object
			h := g.load(e.old0(), "BigInt._inner", a, SInt)
			out = append(out, leafRef{"MathBig.val", h, SInt, nil})
			out = append(out, leafRef{"MathBig.backing", h, SInt, nil})
			out = append(out, leafRef{"MathBig.nz", h, SBool, nil})
		}
		return out
	}
	switch x := x.(type) {
	case *EField:
		base := e.eval(x.X)
		if base.Ty.K != KRef || base.Ty.Elem == nil {
			e.fail("assigns: %s is not a reference", exprString(x.X))
		}
		stt, ok := base.Ty.Elem.Underlying().(*types.Struct)
		if !ok {
			e.fail("assigns: %s is not a struct", exprString(x.X))
		}
		sname := typeKeyName(base.Ty.Elem)
		for i := 0; i < stt.NumFields(); i++ {
			f := stt.Field(i)
			if f.Name() != x.Name {
				continue
			}
			ft := f.Type()
			if _, isSlice := ft.Underlying().(*types.Slice); isSlice {
				return []leafRef{{sname + "." + x.Name + "#ptr", base.T, SInt, nil}, {sname + "." + x.Name + "#len", base.T, SInt, nil}}
			}
			if s, ok := scalarSort(ft); ok {
				return []leafRef{{sname + "." + x.Name, base.T, s, ft}}
			}
			return objLeaves(Add(base.T, IntLit(g.L.fieldOffset(stt, i))), ft)
		}
		e.fail("assigns: no field %s", x.Name)
	case *EUn:
		if x.Op == "*" {
			v := e.eval(x.X)
			if v.Ty.K != KRef || v.Ty.Elem == nil {
				e.fail("assigns: * of non-reference")
			}
			return objLeaves(v.T, v.Ty.Elem)
		}
	case *EIdent:
		v := e.eval(x)
		if v.Ty.K == KRef && v.Ty.Elem != nil {
			return objLeaves(v.T, v.Ty.Elem)
		}
	case *EIndex:
		base := e.eval(x.X)
		i := e.integer(x.I)
		var elem types.Type
		if base.Ty.K == KSlice {
			elem = base.Ty.Elem
		} else if arr, ok := base.Ty.Elem.Underlying().(*types.Array); ok {
			elem = arr.Elem()
		}
		if elem != nil {
			return objLeaves(Add(base.T, Mul(IntLit(g.L.sizeOf(elem)), i)), elem)
		}
	case *ECall:
		if isRegionFn(x.Fn) {
			return nil // a region of cells, not a list of leaves: see regions
		}
	}
	e.fail("assigns: cannot resolve %s", exprString(x))
	return nil
}

// region is a half-open interval [Lo, Hi) of cells of one array (the backing array of a slice of scalars).
type region struct {
	Key    string
	Lo, Hi Term
	Sort   Sort
	Src    string
}

func isRegionFn(fn string) bool { return fn == "spare" || fn == "elems" || fn == "cells" }

// regions resolves the region expressions of an assigns clause:
//
//	elems(s)  the cells s[0:len(s)]
//	spare(s)  the cells s[len(s):cap(s)] - what append(s, ...) may write without reallocating
//	cells(s)  both
func (g *Gen) regions(e *Env, x Expr) []region {
	c, ok := x.(*ECall)
	if !ok || !isRegionFn(c.Fn) {
		return nil
	}
	if len(c.Args) != 1 {
		e.fail("assigns: %s takes one slice", c.Fn)
	}
	v := e.eval(c.Args[0])
	if v.Ty.K != KSlice {
		e.fail("assigns: %s of a non-slice", c.Fn)
	}
	es, sc := scalarSort(v.Ty.Elem)
	if !sc {
		e.fail("assigns: %s of a slice of non-scalars", c.Fn)
	}
	sz := IntLit(g.L.sizeOf(v.Ty.Elem))
	lo, mid, hi := v.T, Add(v.T, Mul(sz, v.Len)), Add(v.T, Mul(sz, e.capOf(v)))
	r := region{Key: cellKey(v.Ty.Elem), Sort: es, Src: exprString(x)}
	switch c.Fn {
	case "elems":
		r.Lo, r.Hi = lo, mid
	case "spare":
		r.Lo, r.Hi = mid, hi
	default:
		r.Lo, r.Hi = lo, hi
	}
	return []region{r}
}

func (r region) contains(i Term) Term { return And(Le(r.Lo, i), Lt(i, r.Hi)) }

func (vc *FuncVC) execCall(st *State, reach Term, ins *ssa.Call) {
	common := ins.Common()
	rt := ins.Type()
	if common.IsInvoke() && vc.execFmtState(st, reach, ins) {
		return
	}
	if common.IsInvoke() {
		vc.note("interface method call %s modelled as pure with unconstrained result at %s", common.Method.Name(), vc.pos(ins.Pos()))
		vc.bigWrites++ // an unknown method: a by-value BigInt copy in this function is not provably read-only
		vc.vals[ins] = vc.freshVal("invoke", rt)
		return
	}
	if b, ok := common.Value.(*ssa.Builtin); ok {
		vc.execBuiltin(st, reach, ins, b)
		return
	}
	callee := common.StaticCallee()
	if callee == nil {
		vc.unsupported("dynamic call at %s", vc.pos(ins.Pos()))
		vc.havocAll(st)
		vc.vals[ins] = vc.freshVal("dyncall", rt)
		return
	}
	name := contractName(callee)
	if fc := vc.W.spec.Funcs[name]; fc != nil {
		// A callee whose contract no longer fits its signature (a parameter was renamed or dropped) cannot be used: the
		// problem is reported, the call is treated like one to code without a contract, and the caller's own obligations
		// are still generated (seed A14 changed fmtE's parameters: Append lost all its obligations behind the error).
		func() {
			defer func() {
				if r := recover(); r != nil {
					msg := fmt.Sprint(r)
					if !strings.HasPrefix(msg, "spec:") {
						panic(r)
					}
					note := fmt.Sprintf("%s: the contract of %s cannot be applied at %s (%s): the call is treated as one to code without a contract", vc.name, name, vc.pos(ins.Pos()), msg)
					seen := false
					for _, s := range vc.Stale {
						if s == note {
							seen = true
						}
					}
					if !seen {
						vc.Stale = append(vc.Stale, note)
					}
					vc.havocAll(st)
					vc.vals[ins] = vc.freshVal("call_"+callee.Name(), rt)
				}
			}()
			vc.applyContract(st, reach, ins, callee, fc)
		}()
		return
	}
	if callee.Pkg != vc.W.spkg {
		vc.execLibrary(st, reach, ins, callee, name)
		return
	}
	// function of this package without a contract: havoc everything
	vc.uncontracted[name] = true
	for i, a := range common.Args {
		if _, ok := a.Type().Underlying().(*types.Pointer); ok && i == 0 && callee.Signature.Recv() != nil {
			vc.nilCheck(reach, a, "recv:"+name, ins.Pos())
		}
	}
	vc.havocAll(st)
	vc.vals[ins] = vc.freshVal("call_"+callee.Name(), rt)
}

// isFmtState: the interface type fmt.State
func isFmtState(t types.Type) bool {
	n, ok := t.(*types.Named)
	return ok && n.Obj().Name() == "State" && n.Obj().Pkg() != nil && n.Obj().Pkg().Path() == "fmt"
}

// stateLog: the ghost output log of a fmt.State - everything written to it so far, as a byte slice (first cell, length)
// kept in the ghost heap keys State.logp / State.logn under the interface value.
func (g *Gen) stateLog(st *State, s Term) (Term, Term) {
	return g.load(st, "State.logp", s, SInt), g.load(st, "State.logn", s, SInt)
}

// execFmtState models the methods of a fmt.State: Write appends to the ghost log (a new array holding the old log and
// then the bytes written); Flag, Width and Precision are fixed attributes of the state (uninterpreted functions of it).
func (vc *FuncVC) execFmtState(st *State, reach Term, ins *ssa.Call) bool {
	common := ins.Common()
	if !isFmtState(common.Value.Type()) {
		return false
	}
	s := vc.scalar(common.Value)
	vc.modelNote("fmt.State")
	decl := func(name, sig string) {
		if !vc.declared[name] {
			vc.declared[name] = true
			vc.decls = append(vc.decls, "(declare-fun "+name+" "+sig+")")
		}
	}
	switch common.Method.Name() {
	case "Write":
		b := vc.val(common.Args[0])
		if b.Kind != vSlice {
			return false
		}
		key := "cell.byte"
		op, on := vc.stateLog(st, s)
		bp, bn := b.Elems[0].T, b.Elems[1].T
		vc.assume(And(Ge(on, IntLit(0)), Lt(on, BigLit(pow2big(62)))))
		n := vc.define("lognew", Add(on, bn))
		p := st.cnt
		st.cnt = vc.define("cnt", Add(st.cnt, Add(n, IntLit(1))))
		old := st.clone()
		na := vc.havocRegion(st, key, SInt, p, Add(p, n), TTrue, "log")
		oarr := vc.arr(old, key, SInt)
		vc.nfresh++
		j := Term{fmt.Sprintf("aj_%d", vc.nfresh), SInt}
		c1 := Implies(And(Le(p, j), Lt(j, Add(p, on))), Eq(Select(na, j, SInt), Select(oarr, Add(op, Sub(j, p)), SInt)))
		c2 := Implies(And(Le(Add(p, on), j), Lt(j, Add(p, n))), Eq(Select(na, j, SInt), Select(oarr, Add(bp, Sub(j, Add(p, on))), SInt)))
		vc.assume(Term{fmt.Sprintf("(forall ((%s Int)) (! %s :pattern (%s)))", j.S, c1.S, Select(na, j, SInt).S), SBool})
		vc.assume(Term{fmt.Sprintf("(forall ((%s Int)) (! %s :pattern (%s)))", j.S, c2.S, Select(na, j, SInt).S), SBool})
		vc.store(st, "State.logp", s, p)
		vc.store(st, "State.logn", s, n)
		vc.vals[ins] = &Val{Kind: vTuple, Elems: []*Val{{T: bn, GoType: types.Typ[types.Int]}, {T: IntLit(0)}}, GoType: ins.Type()}
		return true
	case "Flag":
		decl("uf_stflag", "(Int Int) Bool")
		vc.vals[ins] = &Val{T: app(SBool, "uf_stflag", s, vc.scalar(common.Args[0])), GoType: ins.Type()}
		return true
	case "Width", "Precision":
		f := "uf_st" + strings.ToLower(common.Method.Name())
		decl(f, "(Int) Int")
		decl(f+"_ok", "(Int) Bool")
		w := app(SInt, f, s)
		vc.assume(And(Le(Neg(BigLit(pow2big(62))), w), Lt(w, BigLit(pow2big(62)))))
		vc.vals[ins] = &Val{Kind: vTuple, Elems: []*Val{{T: w, GoType: types.Typ[types.Int]}, {T: app(SBool, f+"_ok", s)}}, GoType: ins.Type()}
		return true
	}
	return false
}

// havocAll forgets the whole heap (call to code without a contract).
func (vc *FuncVC) havocAll(st *State) {
	vc.bigWrites++
	var ks []string
	for k := range vc.keys {
		ks = append(ks, k)
	}
	sort.Strings(ks)
	for _, k := range ks {
		st.heap[k] = vc.freshArray("HA_"+k, vc.keys[k])
		vc.writes = append(vc.writes, writeRec{k, "*", vc.keys[k], false})
	}
	c := vc.fresh("cnt_havoc", SInt)
	vc.assume(Ge(c, st.cnt))
	st.cnt = c
}

func (vc *FuncVC) execBuiltin(st *State, reach Term, ins *ssa.Call, b *ssa.Builtin) {
	args := ins.Common().Args
	switch b.Name() {
	case "len", "cap":
		v := vc.val(args[0])
		if v.Kind == vSlice {
			if b.Name() == "cap" {
				vc.vals[ins] = &Val{T: vc.capOf(v), GoType: ins.Type()}
				return
			}
			vc.vals[ins] = &Val{T: v.Elems[1].T, GoType: ins.Type()}
			return
		}
		if arr, ok := args[0].Type().Underlying().(*types.Array); ok {
			vc.vals[ins] = &Val{T: IntLit(arr.Len()), GoType: ins.Type()}
			return
		}
		if p, ok := args[0].Type().Underlying().(*types.Pointer); ok {
			if arr, ok := p.Elem().Underlying().(*types.Array); ok {
				vc.vals[ins] = &Val{T: IntLit(arr.Len()), GoType: ins.Type()}
				return
			}
		}
		if isString(args[0].Type()) && b.Name() == "len" {
			vc.vals[ins] = &Val{T: vc.strLen(vc.scalar(args[0])), GoType: ins.Type()}
			return
		}
		c := vc.fresh("len", SInt)
		vc.assume(And(Ge(c, IntLit(0)), Lt(c, BigLit(pow2big(62)))))
		vc.vals[ins] = &Val{T: c, GoType: ins.Type()}
	case "append":
		// append(s, t...) for slices of scalars. As in Go, the result reuses s's backing array when the new length
		// fits its capacity and is a new array otherwise. The cells written - s's spare cells [len(s), len(s)+len(t))
		// in the first case, the whole new array in the second - need a write permission like any store (a region
		// obligation) and take unknown values, except that the first eight elements of the result are modelled
		// exactly (s's, then t's). t may be a string (append(buf, "NaN"...)): then its bytes are unknown.
		if len(args) == 2 {
			sv, tv := vc.val(args[0]), vc.val(args[1])
			_, tIsString := args[1].Type().Underlying().(*types.Basic)
			if sl, ok := ins.Type().Underlying().(*types.Slice); ok && sv.Kind == vSlice && (tv.Kind == vSlice || tIsString) {
				if es, sc := scalarSort(sl.Elem()); sc {
					key := cellKey(sl.Elem())
					ls, ps, caps := sv.Elems[1].T, sv.Elems[0].T, vc.capOf(sv)
					var lt, pt Term
					if tIsString {
						lt = vc.strLen(vc.scalar(args[1]))
						if c, isC := args[1].(*ssa.Const); isC && c.Value != nil && c.Value.Kind() == constant.String {
							lt = IntLit(int64(len(constant.StringVal(c.Value))))
						} else {
							vc.assume(And(Ge(lt, IntLit(0)), Lt(lt, BigLit(pow2big(62)))))
						}
					} else {
						lt, pt = tv.Elems[1].T, tv.Elems[0].T
					}
					n := vc.define("applen", Add(ls, lt))
					fits := vc.define("appfits", Le(n, caps))
					p := vc.define("appptr", Ite(fits, ps, st.cnt))
					wlo := vc.define("applo", Ite(fits, Add(ps, ls), st.cnt))
					whi := vc.define("apphi", Add(p, n))
					ncap := vc.fresh("appcap", SInt)
					vc.assume(And(Ge(ncap, n), Lt(ncap, BigLit(pow2big(62))), Implies(fits, Eq(ncap, caps))))
					st.cnt = vc.define("cnt", Ite(fits, st.cnt, Add(st.cnt, Add(ncap, IntLit(1)))))
					old := st.clone()
					vc.checkRegionWrite(key, wlo, whi, "append")
					na := vc.havocRegion(st, key, es, wlo, whi, TTrue, "app")
					for k := int64(0); k < 8; k++ {
						kk := IntLit(k)
						var v Term
						if tIsString {
							v = vc.load(old, key, Add(ps, kk), es)
							vc.assume(Implies(Lt(kk, ls), Eq(Select(na, Add(p, kk), es), v)))
							continue
						}
						v = Ite(Lt(kk, ls), vc.load(old, key, Add(ps, kk), es), vc.load(old, key, Add(pt, Sub(kk, ls)), es))
						vc.assume(Implies(Lt(kk, n), Eq(Select(na, Add(p, kk), es), v)))
					}
					// every element of the result, as quantified facts over the cell address (the eight ground instances
					// above stay: they need no instantiation): the first len(s) cells hold s's elements, the rest t's
					// (read in the state before the append, as memmove does); the bytes of a constant string are known
					oarr := vc.arr(old, key, es)
					vc.nfresh++
					j := Term{fmt.Sprintf("aj_%d", vc.nfresh), SInt}
					c1 := Implies(And(Le(p, j), Lt(j, Add(p, ls))), Eq(Select(na, j, es), Select(oarr, Add(ps, Sub(j, p)), es)))
					vc.assume(Term{fmt.Sprintf("(forall ((%s Int)) (! %s :pattern (%s)))", j.S, c1.S, Select(na, j, es).S), SBool})
					if !tIsString {
						c2 := Implies(And(Le(Add(p, ls), j), Lt(j, Add(p, n))), Eq(Select(na, j, es), Select(oarr, Add(pt, Sub(j, Add(p, ls))), es)))
						vc.assume(Term{fmt.Sprintf("(forall ((%s Int)) (! %s :pattern (%s)))", j.S, c2.S, Select(na, j, es).S), SBool})
					} else if c, isC := args[1].(*ssa.Const); isC && c.Value != nil && c.Value.Kind() == constant.String {
						for k, b := range []byte(constant.StringVal(c.Value)) {
							vc.assume(Eq(Select(na, Add(p, Add(ls, IntLit(int64(k)))), es), IntLit(int64(b))))
						}
					} else {
						code := vc.scalar(args[1])
						c2 := Implies(And(Le(Add(p, ls), j), Lt(j, Add(p, n))), Eq(Select(na, j, es), vc.strByte(code, Sub(j, Add(p, ls)))))
						vc.assume(Term{fmt.Sprintf("(forall ((%s Int)) (! %s :pattern (%s)))", j.S, c2.S, Select(na, j, es).S), SBool})
					}
					vc.vals[ins] = &Val{Kind: vSlice, Elems: []*Val{{T: p}, {T: n}, {T: ncap}}, GoType: ins.Type()}
					return
				}
			}
		}
		vc.note("builtin %s modelled as unconstrained at %s", b.Name(), vc.pos(ins.Pos()))
		vc.vals[ins] = vc.freshVal("builtin_"+b.Name(), ins.Type())
	default:
		vc.note("builtin %s modelled as unconstrained at %s", b.Name(), vc.pos(ins.Pos()))
		vc.vals[ins] = vc.freshVal("builtin_"+b.Name(), ins.Type())
	}
}

// siteAsserts: the ghost assertions a contract places before a call site (assert before CALLEE#n: [label] FACT) are proved
// there and then assumed. FACT sees the parameters (entry values), now(p), the source-level locals and the actual
// arguments of the call as arg0, arg1, ... (scalars and strings).
var witnessScope = regexp.MustCompile(`^([a-z]+)w_`)

func (vc *FuncVC) siteAsserts(st *State, reach Term, ins *ssa.Call, site string) {
	as := vc.fc.Asserts[site]
	if len(as) == 0 {
		return
	}
	vars := vc.localVars()
	for i, a := range ins.Common().Args {
		if _, ok := scalarSort(a.Type()); ok {
			v := vc.val(a)
			if v.Kind == vScalar || v.Kind == vLoc {
				vars[fmt.Sprintf("arg%d", i)] = vc.toSVal(v, a.Type())
			}
		}
	}
	for i, a := range as {
		env := vc.env(st, vars)
		label := a.Name
		if label == "" {
			label = fmt.Sprintf("%d", i+1)
		}
		var t Term
		ok := func() (ok bool) {
			defer func() {
				if r := recover(); r != nil {
					msg := fmt.Sprint(r)
					if !strings.HasPrefix(msg, "spec:") {
						panic(r)
					}
					// the assertion names something the code no longer has (a local, a parameter): a stale proof step
					note := fmt.Sprintf("%s: the assertion [%s] before %s cannot be evaluated (%s): dropped", vc.name, label, site, msg)
					for _, s := range vc.Stale {
						if s == note {
							return
						}
					}
					vc.Stale = append(vc.Stale, note)
				}
			}()
			t = env.boolean(a.E)
			return true
		}()
		vc.assertsSeen[site] = true
		if !ok {
			continue
		}
		vc.oblige("R", fmt.Sprintf("assert/%s/%s", site, label), reach, t, clauseTags(a, vc.propTags()), ins.Pos(), a.Src)
		if m := witnessScope.FindStringSubmatch(label); m != nil {
			if vc.scoped == nil {
				vc.scoped = map[string]string{}
			}
			vc.scoped[Implies(reach, t).S] = m[1]
		}
		vc.assume(Implies(reach, t))
		vc.assertsSeen[site] = true
	}
}

// execLibrary handles calls to other packages that have no contract.
func (vc *FuncVC) execLibrary(st *State, reach Term, ins *ssa.Call, callee *ssa.Function, name string) {
	args := ins.Common().Args
	rt := ins.Type()
	vc.siteAsserts(st, reach, ins, fmt.Sprintf("%s#%d", name, vc.siteOrd[ins]))
	u64 := BigLit(pow2_64)
	switch name {
	case "strings.HasPrefix":
		vc.modelNote("strings.HasPrefix")
		// a deterministic (uninterpreted) function of the two string codes, nameable in contracts as uf_hasprefix(s, p) == 1
		fname := "uf_hasprefix_2"
		if !vc.declared[fname] {
			vc.declared[fname] = true
			vc.decls = append(vc.decls, "(declare-fun "+fname+" (Int Int) Int)")
		}
		hp := Eq(app(SInt, fname, vc.scalar(args[0]), vc.scalar(args[1])), IntLit(1))
		if c, isC := args[1].(*ssa.Const); isC && c.Value != nil && c.Value.Kind() == constant.String && len(constant.StringVal(c.Value)) <= 32 {
			// a constant prefix: exact
			vc.assume(Eq(hp, vc.strHasPrefixConst(vc.scalar(args[0]), constant.StringVal(c.Value))))
		}
		// a string is at least as long as any prefix of it
		vc.assume(Implies(hp, Ge(vc.strLen(vc.scalar(args[0])), vc.strLen(vc.scalar(args[1])))))
		vc.vals[ins] = &Val{T: hp, GoType: rt}
		return
	case "strings.IndexByte":
		// the first position holding the byte, or -1 when no position does
		vc.modelNote("strings.IndexByte")
		vc.modelNote("strings")
		code, b := vc.scalar(args[0]), vc.scalar(args[1])
		r := vc.fresh("stridx", SInt)
		n := vc.strLen(code)
		vc.assume(And(Le(IntLit(-1), r), Lt(r, n)))
		vc.assume(Implies(Ge(r, IntLit(0)), Eq(vc.strByte(code, r), b)))
		vc.assume(vc.strSegFactP(code, IntLit(0), Ite(Ge(r, IntLit(0)), r, n), func(t Term) Term { return Ne(vc.strByte(code, t), b) }))
		vc.vals[ins] = &Val{T: r, GoType: rt}
		return
	case "strings.ToLower":
		// For a text of ASCII bytes only: same length, upper-case letters mapped to lower case, everything else kept.
		// (Anything else - multi-byte runes, invalid UTF-8 - may change the length: nothing is said then.)
		vc.modelNote("strings.ToLower")
		vc.modelNote("strings")
		code := vc.scalar(args[0])
		r := vc.freshVal("lower", rt)
		n := vc.strLen(code)
		ascii := vc.strSegFactP(code, IntLit(0), n, func(t Term) Term { return Lt(vc.strByte(code, t), IntLit(128)) })
		lower := func(b Term) Term { return Ite(And(Le(IntLit(65), b), Le(b, IntLit(90))), Add(b, IntLit(32)), b) }
		vc.assume(Implies(ascii, And(Eq(vc.strLen(r.T), n), vc.strSegFact(r.T, IntLit(0), n, func(t Term) Term { return lower(vc.strByte(code, t)) }))))
		vc.vals[ins] = r
		return
	case "strconv.ParseInt":
		// base 10, a constant bit size: succeeds exactly on a numeral (optional sign, digits) whose value fits, and returns it
		if sc, ok := args[2].(*ssa.Const); ok && sc.Value != nil && sc.Int64() >= 8 && sc.Int64() <= 64 {
			vc.numeralTheory()
			vc.modelNote("strconv.ParseInt")
			vc.modelNote("numerals")
			code, base := vc.scalar(args[0]), vc.scalar(args[1])
			v := vc.fresh("parsed", SInt)
			er := vc.fresh("parseerr", SInt)
			lim := pow2big(int(sc.Int64() - 1))
			isnum := Eq(app(SInt, "uf_isnum_1", code), IntLit(1))
			nv := app(SInt, "uf_numval_1", code)
			okc := And(isnum, Le(Neg(BigLit(lim)), nv), Lt(nv, BigLit(lim)))
			b10 := Eq(base, IntLit(10))
			vc.assume(Implies(b10, Eq(Eq(er, IntLit(0)), okc)))
			vc.assume(Implies(And(b10, okc), Eq(v, nv)))
			vc.assume(And(Le(Neg(BigLit(pow2big(63))), v), Lt(v, BigLit(pow2big(63)))))
			vc.vals[ins] = &Val{Kind: vTuple, Elems: []*Val{{T: v, GoType: types.Typ[types.Int64]}, {T: er}}, GoType: rt}
			vc.libHavoc(name)
			return
		}
	case "strconv.ParseUint":
		// base 10, 64 bits: succeeds exactly on a numeral without sign whose value is below 2^64, and returns it
		if sc, ok := args[2].(*ssa.Const); ok && sc.Value != nil && sc.Int64() == 64 {
			vc.numeralTheory()
			vc.modelNote("strconv.ParseUint")
			vc.modelNote("numerals")
			code, base := vc.scalar(args[0]), vc.scalar(args[1])
			v := vc.fresh("parsedu", SInt)
			er := vc.fresh("parseerr", SInt)
			isnum := Eq(app(SInt, "uf_isnum_1", code), IntLit(1))
			nv := app(SInt, "uf_numval_1", code)
			b0 := vc.strByte(code, IntLit(0))
			okc := And(isnum, Ne(b0, IntLit(43)), Ne(b0, IntLit(45)), Le(IntLit(0), nv), Lt(nv, BigLit(pow2_64)))
			b10 := Eq(base, IntLit(10))
			vc.assume(Implies(b10, Eq(Eq(er, IntLit(0)), okc)))
			vc.assume(Implies(And(b10, okc), Eq(v, nv)))
			vc.assume(And(Le(IntLit(0), v), Lt(v, BigLit(pow2_64))))
			vc.vals[ins] = &Val{Kind: vTuple, Elems: []*Val{{T: v, GoType: types.Typ[types.Uint64]}, {T: er}}, GoType: rt}
			vc.libHavoc(name)
			return
		}
	case "strings.Index", "strings.IndexRune", "strings.LastIndexByte":
		// -1, or a position inside the string
		r := vc.fresh("stridx", SInt)
		vc.assume(And(Le(IntLit(-1), r), Lt(r, vc.strLen(vc.scalar(args[0])))))
		vc.vals[ins] = &Val{T: r, GoType: rt}
		return
	case "fmt.Fprintf":
		// writes an unknown text to its writer: for a fmt.State the ghost log becomes unknown (its old contents a prefix)
		if mi, ok := args[0].(*ssa.MakeInterface); ok && isFmtState(mi.X.Type()) || isFmtState(args[0].Type()) {
			sv := vc.scalar(args[0])
			if ok {
				sv = vc.scalar(mi.X)
			}
			vc.store(st, "State.logp", sv, vc.fresh("logp", SInt))
			vc.store(st, "State.logn", sv, vc.fresh("logn", SInt))
		}
		vc.libHavoc(name)
		vc.vals[ins] = vc.freshVal("lib_"+callee.Name(), rt)
		return
	case "errors.New", "fmt.Errorf":
		c := vc.fresh("err", SInt)
		vc.assume(Ne(c, IntLit(0)))
		vc.vals[ins] = &Val{T: c, GoType: rt}
		return
	case "math/bits.Add64":
		x, y, c := vc.scalar(args[0]), vc.scalar(args[1]), vc.scalar(args[2])
		s := vc.define("add64", Add(Add(x, y), c))
		vc.vals[ins] = &Val{Kind: vTuple, Elems: []*Val{{T: app(SInt, "mod", s, u64)}, {T: app(SInt, "div", s, u64)}}, GoType: rt}
		return
	case "math/bits.Sub64":
		x, y, c := vc.scalar(args[0]), vc.scalar(args[1]), vc.scalar(args[2])
		s := vc.define("sub64", Sub(Sub(x, y), c))
		vc.vals[ins] = &Val{Kind: vTuple, Elems: []*Val{{T: app(SInt, "mod", s, u64)}, {T: Ite(Lt(s, IntLit(0)), IntLit(1), IntLit(0))}}, GoType: rt}
		return
	case "math/bits.Mul64":
		x, y := vc.scalar(args[0]), vc.scalar(args[1])
		p := vc.define("mul64", Mul(x, y))
		vc.vals[ins] = &Val{Kind: vTuple, Elems: []*Val{{T: app(SInt, "div", p, u64)}, {T: app(SInt, "mod", p, u64)}}, GoType: rt}
		return
	case "math/bits.Len", "math/bits.Len64":
		x := vc.scalar(args[0])
		vc.vals[ins] = &Val{T: app(SInt, "bitlen", x), GoType: rt}
		return
	}
	vc.libHavoc(name)
	vc.vals[ins] = vc.freshVal("lib_"+callee.Name(), rt)
	if vc.libResults == nil {
		vc.libResults = map[string]libResult{}
	}
	vc.libResults[fmt.Sprintf("%s#%d", name, vc.siteOrd[ins])] = libResult{reach, vc.vals[ins]}
}

// libResult: where a library call was made and what it returned (for a `forwards` clause)
type libResult struct {
	reach Term
	res   *Val
}

// modelNote records that a natively modelled library function or language feature was used (listed as an assumption)
func (vc *FuncVC) modelNote(name string) {
	for _, n := range vc.notes {
		if n == "model:"+name {
			return
		}
	}
	vc.notes = append(vc.notes, "model:"+name)
}

func (vc *FuncVC) libHavoc(name string) {
	vc.bigWrites++ // an unknown library function: not provably read-only for a by-value BigInt copy
	for _, n := range vc.notes {
		if n == "library:"+name {
			return
		}
	}
	vc.notes = append(vc.notes, "library:"+name)
}

func (vc *FuncVC) applyContract(st *State, reach Term, ins *ssa.Call, callee *ssa.Function, fc *FuncContract) {
	common := ins.Common()
	rt := ins.Type()
	name := fc.Name
	site := fmt.Sprintf("%s#%d", name, vc.siteOrd[ins])
	if vc.discovery == 0 {
		vc.sites = append(vc.sites, site+" @"+vc.pos(ins.Pos()))
	}
	if !vc.L.layer1 && fc.Layer1 && !callee.Object().Exported() {
		// Code outside bigint.go reaches into the representation (innerAsUint64, updateInnerFromUint64, inner, ...). The
		// contracts of those helpers speak about the inline words and the math/big handle, which layer 2 cannot see, and the
		// representation invariant is established method by method in layer 1 only: this is an obligation that cannot be
		// discharged, reported by name; the call is then treated like one to code without a contract.
		vc.oblige("S", "layering/"+site, reach, TFalse, vc.propTags("C16"), ins.Pos(), "outside bigint.go a BigInt is used only through its exported methods (the representation invariant is proved per method)")
		vc.havocAll(st)
		vc.vals[ins] = vc.freshVal("call_"+callee.Name(), rt)
		return
	}
	if fc.Trusted {
		vc.trustedUsed[name] = true
	} else {
		vc.contractedUsed[name] = true
	}
	if vc.discovery == 0 {
		inLoop := false
		for _, body := range vc.loopBody {
			if body[ins.Block()] {
				inLoop = true
			}
		}
		vc.callLog = append(vc.callLog, callRec{name, reach, inLoop})
	}
	// bind parameters
	vars := map[string]SVal{}
	sig := callee.Signature
	var pnames []string
	var ptypes []types.Type
	if sig.Recv() != nil {
		pnames = append(pnames, sig.Recv().Name())
		ptypes = append(ptypes, sig.Recv().Type())
	}
	for i := 0; i < sig.Params().Len(); i++ {
		pnames = append(pnames, sig.Params().At(i).Name())
		ptypes = append(ptypes, sig.Params().At(i).Type())
	}
	if len(pnames) != len(common.Args) {
		vc.unsupported("argument count mismatch calling %s", name)
		vc.havocAll(st)
		vc.vals[ins] = vc.freshVal("call", rt)
		return
	}
	// the callee's ghost variables: its clauses hold for all their values, so any instantiation is sound - the caller's
	// ghosts of the same name where it has them (a wrapper passes its own ghost text description on), otherwise arbitrary
	for _, gp := range fc.Ghosts {
		if v, ok := vc.params[gp.Name]; ok {
			vars[gp.Name] = v
			continue
		}
		ty := (&Env{g: vc.Gen}).parseType(gp.Type)
		vars[gp.Name] = SVal{T: vc.fresh("ghost_"+gp.Name, ty.sort()), Ty: ty}
	}
	var nonNilGoals []Term
	for i, a := range common.Args {
		av := vc.val(a)
		sv := vc.toSVal(av, ptypes[i])
		vars[pnames[i]] = sv
		if _, isPtr := ptypes[i].Underlying().(*types.Pointer); isPtr && !fc.Nilable[pnames[i]] && !vc.nonnil[a] {
			switch a.(type) {
			case *ssa.FieldAddr, *ssa.IndexAddr, *ssa.Alloc, *ssa.Global:
			default:
				nonNilGoals = append(nonNilGoals, Ne(sv.T, IntLit(0)))
			}
		}
	}
	// ghost assertions placed before this call site
	vc.siteAsserts(st, reach, ins, site)
	pre := st.clone()
	envPre := &Env{g: vc.Gen, cur: pre, old: pre, vars: vars}
	// S: nil arguments
	if len(nonNilGoals) > 0 {
		g := And(nonNilGoals...)
		vc.oblige("S", "nil/arg:"+site, reach, g, vc.propTags("C04"), ins.Pos(), "non-nil arguments of "+name)
		vc.assume(Implies(reach, g))
	}
	// S/R: preconditions
	if len(fc.Requires) > 0 {
		var gs []Term
		var srcs []string
		for _, r := range fc.Requires {
			gs = append(gs, envPre.boolean(r.E))
			srcs = append(srcs, r.Src)
		}
		vc.oblige("S", "pre/"+site, reach, And(gs...), vc.propTags("C04"), ins.Pos(), strings.Join(srcs, " && "))
		vc.assume(Implies(reach, And(gs...)))
	}
	// D: a pointer handed to the callee in an operand position must point at defined contents
	if vc.defKeys != nil && vc.discovery == 0 {
		for i := range common.Args {
			pt, isPtr := ptypes[i].Underlying().(*types.Pointer)
			if !isPtr || isOut(fc, pnames[i]) {
				continue
			}
			if _, sc := scalarSort(pt.Elem()); sc {
				continue
			}
			var g Term
			if rs, restricted := readsOf(vc.Gen, envPre, fc); restricted[pnames[i]] {
				var gs []Term
				for _, lf := range vc.L.leaves(pt.Elem(), 0, "") {
					a := Add(vars[pnames[i]].T, IntLit(lf.Off))
					if vc.defKeys[lf.Key] && rs[lf.Key+"@"+a.S] {
						gs = append(gs, vc.isDef(st, lf.Key, a))
					}
				}
				g = And(gs...)
			} else {
				g = vc.allDef(st, vars[pnames[i]].T, pt.Elem())
			}
			if g.S == "true" {
				continue
			}
			vc.oblige("D", fmt.Sprintf("defined/arg:%s:%s", site, pnames[i]), reach, g, []string{"C05", "C06"}, ins.Pos(), "the previous contents of a destination are not read: operand "+pnames[i]+" of "+name)
		}
	}
	if vc.dirtyKeys != nil && vc.discovery == 0 {
		for i, a := range common.Args {
			pt, isPtr := ptypes[i].Underlying().(*types.Pointer)
			if !isPtr || isOut(fc, pnames[i]) || len(vc.roots(a)) == 0 {
				continue
			}
			if _, sc := scalarSort(pt.Elem()); sc {
				continue
			}
			rs, restricted := readsOf(vc.Gen, envPre, fc)
			var gs []Term
			for _, lf := range vc.L.leaves(pt.Elem(), 0, "") {
				ad := Add(vars[pnames[i]].T, IntLit(lf.Off))
				if !vc.dirtyKeys[lf.Key] || (restricted[pnames[i]] && !rs[lf.Key+"@"+ad.S]) {
					continue
				}
				gs = append(gs, Implies(vc.inOperand(vc.roots(a), ad), Eq(vc.load(st, lf.Key, ad, lf.Sort), vc.load(vc.entry, lf.Key, ad, lf.Sort))))
			}
			if len(gs) == 0 {
				continue
			}
			vc.oblige("D", fmt.Sprintf("unmodified/arg:%s:%s", site, pnames[i]), reach, And(gs...), []string{"C05"}, ins.Pos(), "an operand handed to a callee still holds its value at entry: operand "+pnames[i]+" of "+name)
		}
	}
	var defBefore *State
	if vc.defKeys != nil {
		defBefore = st.clone()
	}
	// effects
	if !fc.HasAssigns {
		vc.note("callee %s has no assigns clause: whole heap havocked", name)
		vc.havocAll(st)
	} else {
		for _, ax := range fc.Assigns {
			for _, lf := range vc.lvalue(envPre, ax) {
				vc.checkWrite(lf.Key, lf.Idx, "assigned by "+name)
				vc.logWrite(lf.Key, lf.Idx, lf.Sort)
				vc.writes[len(vc.writes)-1].chk = true
				v := vc.havocLeaf(st, lf.Key, lf.Idx, lf.Sort, "h_"+callee.Name())
				if lf.Type != nil {
					vc.assume(rangeFact(v, lf.Type))
				}
			}
			for _, r := range vc.regions(envPre, ax) {
				vc.checkRegionWrite(r.Key, r.Lo, r.Hi, r.Src+" assigned by "+name)
				vc.havocRegion(st, r.Key, r.Sort, r.Lo, r.Hi, TTrue, "hr_"+callee.Name())
			}
		}
	}
	if vc.L.layer1 && strings.HasPrefix(name, "math/big.(*Int).") {
		// a math/big method that writes *p writes p's words; when p is a header over the inline words of a
		// BigInt (ghost backing(p) != 0) those are the BigInt's own words: they are unknown until updateInner
		for _, ax := range fc.Assigns {
			u, ok := ax.(*EUn)
			if !ok || u.Op != "*" {
				continue
			}
			pv := envPre.eval(u.X)
			bk := vc.load(pre, "MathBig.backing", pv.T, SInt)
			// the header keeps pointing at the same words unless math/big moved the value to storage of its own
			nb := vc.load(st, "MathBig.backing", pv.T, SInt)
			vc.assume(Implies(reach, Or(Eq(nb, bk), Eq(nb, IntLit(0)))))
			for off := int64(1); off <= 2; off++ {
				idx := vc.define("bkw", Add(bk, IntLit(off)))
				old := vc.load(st, "cell.uint", idx, SInt)
				fresh := vc.fresh("w_"+callee.Name(), SInt)
				vc.assume(And(Le(IntLit(0), fresh), Lt(fresh, BigLit(pow2_64))))
				vc.logWrite("cell.uint", idx, SInt)
				vc.store(st, "cell.uint", idx, Ite(And(Ne(pv.T, IntLit(0)), Ne(bk, IntLit(0))), fresh, old))
			}
		}
	}
	if fc.Fresh || fc.Allocates {
		c := vc.fresh("cnt_call", SInt)
		vc.assume(Ge(c, st.cnt))
		st.cnt = c
	}
	// results
	res := vc.freshVal("r_"+callee.Name(), rt)
	vc.vals[ins] = res
	post := map[string]SVal{}
	for k, v := range vars {
		post[k] = v
	}
	if tup, ok := rt.(*types.Tuple); ok {
		for i := 0; i < tup.Len(); i++ {
			post[fmt.Sprintf("ret%d", i)] = vc.toSVal(res.Elems[i], tup.At(i).Type())
		}
		if tup.Len() > 0 {
			post["ret"] = post["ret0"]
		}
	} else {
		post["ret"] = vc.toSVal(res, rt)
		post["ret0"] = post["ret"]
	}
	if _, clash := post["result"]; !clash {
		post["result"] = post["ret"]
	}
	if fc.Fresh {
		r := post["ret"]
		sz := int64(1)
		if r.Ty.K == KRef && r.Ty.Elem != nil {
			sz = vc.L.sizeOf(r.Ty.Elem)
		}
		vc.assume(Implies(reach, And(Ge(r.T, pre.cnt), Le(Add(r.T, IntLit(sz)), st.cnt))))
		vc.nonnil[ins] = true
	}
	// a callee that is handed a fmt.State may write to it: the ghost log of that state is unknown afterwards (what the
	// callee's ensures clauses say about wlog(s) is then all that is known)
	for i, a := range common.Args {
		if isFmtState(ptypes[i]) {
			sv := vc.scalar(a)
			vc.store(st, "State.logp", sv, vc.fresh("logp", SInt))
			vc.store(st, "State.logn", sv, vc.fresh("logn", SInt))
		}
	}
	envPost := &Env{g: vc.Gen, cur: st, old: pre, vars: post}
	for _, en := range fc.Ensures {
		if mentionsUnknown(vc.W, en.E, post) {
			continue // clause about the callee's own locals: not part of its external contract
		}
		vc.assume(Implies(reach, envPost.boolean(en.E)))
	}
	if vc.defKeys != nil {
		// what the callee's outs clause lists has been written (when its condition holds); other assigned
		// locations keep the definedness they had
		cond := TTrue
		if fc.OutsWhen != nil && !mentionsUnknown(vc.W, fc.OutsWhen.E, post) {
			cond = vc.define("outs_when", envPost.boolean(fc.OutsWhen.E))
		}
		var written []leafRef
		for _, o := range fc.Outs {
			written = append(written, vc.lvalue(envPre, &EIdent{Name: o})...)
		}
		for _, ox := range fc.OutFields {
			written = append(written, vc.lvalue(envPre, ox)...)
		}
		for _, lf := range written {
			if !vc.defKeys[lf.Key] {
				continue
			}
			if cond.S == "true" {
				vc.markDef(st, lf.Key, lf.Idx, TTrue)
			} else {
				vc.markDef(st, lf.Key, lf.Idx, Or(vc.isDef(defBefore, lf.Key, lf.Idx), cond))
			}
		}
	}
	if labels := vc.fc.Imports[name]; len(labels) > 0 && fc.Delegate != "" {
		vc.importDelegate(st, pre, reach, fc, envPre, vars, labels)
	}
	if vc.fc.Delegate == name && vc.discovery == 0 {
		dc := &delegCall{reach: reach, res: res, after: st.clone(), pos: ins.Pos()}
		for i := range common.Args {
			dc.args = append(dc.args, vars[pnames[i]])
		}
		vc.dcalls = append(vc.dcalls, dc)
	}
}

// importDelegate: what class T proves about a wrapper (it performs exactly the delegated operation when no
// error is pending, ors its flags into e.Flags and records its error) lets a caller of the wrapper use
// the operation's own postconditions.
func (vc *FuncVC) importDelegate(st, pre *State, reach Term, fc *FuncContract, envPre *Env, vars map[string]SVal, labels []string) {
	dfc := vc.W.spec.Funcs[fc.Delegate]
	dfn := vc.W.funcs[fc.Delegate]
	if dfc == nil || dfn == nil {
		panic("import: unknown delegate " + fc.Delegate)
	}
	vc.contractedUsed[fc.Delegate] = true
	ev := vars["e"]
	oldErr := vc.fieldOf(pre, ev.T, ev.Ty.Elem, "err").T
	oldFlags := vc.fieldOf(pre, ev.T, ev.Ty.Elem, "Flags").T
	ctx := vc.fieldOf(pre, ev.T, ev.Ty.Elem, "Ctx")
	traps := vc.fieldOf(pre, ctx.T, ctx.Ty.Elem, "Traps").T
	sys := BVLit(3)
	pending := Or(Ne(oldErr, IntLit(0)), Ne(app(SBV, "bvand", oldFlags, sys), BVLit(0)), Ne(app(SBV, "bvand", oldFlags, traps), BVLit(0)))
	newErr := vc.fieldOf(st, ev.T, ev.Ty.Elem, "err").T
	newFlags := vc.fieldOf(st, ev.T, ev.Ty.Elem, "Flags").T
	sig := dfn.Signature
	var names []string
	if sig.Recv() != nil {
		names = append(names, sig.Recv().Name())
	}
	for i := 0; i < sig.Params().Len(); i++ {
		names = append(names, sig.Params().At(i).Name())
	}
	if len(names) != len(fc.DelegateArgs) {
		panic("import: argument count of " + fc.Delegate)
	}
	dvars := map[string]SVal{}
	for i, ax := range fc.DelegateArgs {
		dvars[names[i]] = envPre.eval(ax)
	}
	n := sig.Results().Len()
	if n < 2 {
		panic("import: delegate must return (..., Condition, error)")
	}
	for i := 0; i < n; i++ {
		t := sig.Results().At(i).Type()
		v := vc.freshVal("dr_"+dfn.Name(), t)
		dvars[fmt.Sprintf("ret%d", i)] = vc.toSVal(v, t)
	}
	dvars["ret"] = dvars["ret0"]
	flagsT, errT := dvars[fmt.Sprintf("ret%d", n-2)].T, dvars[fmt.Sprintf("ret%d", n-1)].T
	envD := &Env{g: vc.Gen, cur: st, old: pre, vars: dvars}
	want := map[string]bool{}
	for _, l := range labels {
		want[l] = true
	}
	guard := And(reach, Not(pending))
	for _, en := range dfc.Ensures {
		if !want[en.Name] || mentionsUnknown(vc.W, en.E, dvars) {
			continue
		}
		vc.assume(Implies(guard, envD.boolean(en.E)))
	}
	vc.assume(Implies(guard, And(Eq(newFlags, app(SBV, "bvor", oldFlags, flagsT)), Eq(newErr, errT))))
}

// delegationChecks (class T): the function performs exactly one call of the named operation with the
// stated arguments unless an error is already pending, accumulates its flags, records its error and
// does not touch the destination otherwise.
func (vc *FuncVC) delegationChecks(st *State, reach Term, k int, pos token.Pos) {
	fc := vc.fc
	tags := vc.propTags("C03")
	e0 := vc.env(vc.entry, nil)
	ev, ok := e0.vars["e"]
	if !ok || ev.Ty.K != KRef {
		panic("delegates: receiver must be named e")
	}
	oldErr := vc.fieldOf(vc.entry, ev.T, ev.Ty.Elem, "err").T
	oldFlags := vc.fieldOf(vc.entry, ev.T, ev.Ty.Elem, "Flags").T
	ctx := vc.fieldOf(vc.entry, ev.T, ev.Ty.Elem, "Ctx")
	traps := vc.fieldOf(vc.entry, ctx.T, ctx.Ty.Elem, "Traps").T
	sys := BVLit(3)
	pending := Or(Ne(oldErr, IntLit(0)), Ne(app(SBV, "bvand", oldFlags, sys), BVLit(0)), Ne(app(SBV, "bvand", oldFlags, traps), BVLit(0)))
	newErr := vc.fieldOf(st, ev.T, ev.Ty.Elem, "err").T
	newFlags := vc.fieldOf(st, ev.T, ev.Ty.Elem, "Flags").T
	if len(vc.dcalls) != 1 {
		vc.oblige("T", fmt.Sprintf("delegates/one-call/ret%d", k), reach, BoolLit(len(vc.dcalls) == 1), tags, pos, "exactly one call of "+fc.Delegate)
		return
	}
	dc := vc.dcalls[0]
	// the call happens exactly when no error is pending
	vc.oblige("T", fmt.Sprintf("delegates/called-iff-no-error/ret%d", k), reach, Eq(dc.reach, Not(pending)), tags, pos, "the operation is performed iff no error is pending")
	// arguments
	var argGoals []Term
	for i, ax := range fc.DelegateArgs {
		if i >= len(dc.args) {
			break
		}
		want := e0.eval(ax)
		argGoals = append(argGoals, Eq(dc.args[i].T, want.T))
	}
	vc.oblige("T", fmt.Sprintf("delegates/arguments/ret%d", k), dc.reach, And(append(argGoals, BoolLit(len(fc.DelegateArgs) == len(dc.args)))...), tags, dc.pos, "arguments of "+fc.Delegate)
	// skipped: nothing but e.err changes
	var same []Term
	for _, key := range sortedKeys(st.heap) {
		if key == "ErrDecimal.err" {
			continue
		}
		s := vc.keys[key]
		if st.heap[key].S != vc.arr(vc.entry, key, s).S {
			sk := vc.named("skd_"+sanitize(key), SInt)
			same = append(same, Implies(And(Lt(IntLit(0), sk), Lt(sk, vc.entry.cnt)), Eq(Select(st.heap[key], sk, s), Select(vc.arr(vc.entry, key, s), sk, s))))
		}
	}
	vc.oblige("T", fmt.Sprintf("delegates/skip-untouched/ret%d", k), And(reach, pending), And(append(same, Ne(newErr, IntLit(0)))...), tags, pos, "after an error every destination is left untouched")
	// performed: flags accumulated, error recorded, destination exactly as the operation left it
	var flagsT, errT Term
	rt := dc.res
	switch {
	case rt.Kind == vTuple && len(rt.Elems) >= 2:
		flagsT, errT = rt.Elems[len(rt.Elems)-2].T, rt.Elems[len(rt.Elems)-1].T
	default:
		vc.oblige("T", fmt.Sprintf("delegates/result-shape/ret%d", k), reach, TFalse, tags, pos, "callee must return (…, Condition, error)")
		return
	}
	var kept []Term
	for _, key := range sortedKeys(st.heap) {
		if strings.HasPrefix(key, "ErrDecimal.") {
			continue
		}
		s := vc.keys[key]
		if st.heap[key].S != vc.arr(dc.after, key, s).S {
			sk := vc.named("skd_"+sanitize(key), SInt)
			kept = append(kept, Implies(And(Lt(IntLit(0), sk), Lt(sk, vc.entry.cnt)), Eq(Select(st.heap[key], sk, s), Select(vc.arr(dc.after, key, s), sk, s))))
		}
	}
	goal := And(append(kept, Eq(newFlags, app(SBV, "bvor", oldFlags, flagsT)), Eq(newErr, errT))...)
	vc.oblige("T", fmt.Sprintf("delegates/accumulates/ret%d", k), And(reach, Not(pending)), goal, tags, pos, "flags accumulated, error recorded, result delivered unchanged")
}

func (vc *FuncVC) execReturn(st *State, reach Term, ins *ssa.Return) {
	vc.retOrd++
	k := vc.retNum[ins]
	if k == 0 {
		k = vc.retOrd
	}
	vars := map[string]SVal{}
	for i, r := range ins.Results {
		v := vc.val(r)
		sv := vc.toSVal(v, r.Type())
		vars[fmt.Sprintf("ret%d", i)] = sv
		if i == 0 {
			vars["ret"] = sv
			if _, clash := vc.params["result"]; !clash {
				vars["result"] = sv
			}
		}
	}
	for name, v := range vc.localVars() {
		if _, clash := vars[name]; !clash {
			vars[name] = v
		}
	}
	for _, site := range vc.fc.Always {
		if vc.discovery > 0 {
			break
		}
		goal := TFalse
		if lr, ok := vc.libResults[site]; ok {
			goal = lr.reach
		}
		vc.oblige("T", fmt.Sprintf("always/%s/ret%d", site, k), reach, goal, vc.propTags(), ins.Pos(), "the call "+site+" is made on every path to this return")
	}
	if site := vc.fc.Forwards; site != "" && vc.discovery == 0 {
		// forwards SITE: this return hands back exactly what the library call at SITE returned, and that call was made
		goal := TFalse
		if lr, ok := vc.libResults[site]; ok {
			gs := []Term{lr.reach}
			var parts []*Val
			if lr.res.Kind == vTuple {
				parts = lr.res.Elems
			} else {
				parts = []*Val{lr.res}
			}
			if len(parts) != len(ins.Results) {
				gs = append(gs, TFalse)
			} else {
				for i, r := range ins.Results {
					rv := vc.val(r)
					if rv.Kind != vScalar || parts[i].Kind != vScalar || rv.T.Sort != parts[i].T.Sort {
						gs = append(gs, TFalse)
						continue
					}
					gs = append(gs, Eq(rv.T, parts[i].T))
				}
			}
			goal = And(gs...)
		}
		vc.oblige("T", fmt.Sprintf("forwards/ret%d", k), reach, goal, vc.propTags(), ins.Pos(), "the results are exactly those of the call "+site+", which was made on this path")
	}
	env := vc.env(st, vars)
	tags := vc.propTags()
	if _, dead := vc.fc.DeadRets[k]; !dead && os.Getenv("APDVC_NOCOVER") == "" {
		// vacuity guard per return: the return is reachable under the facts accumulated so far
		if o := vc.oblige("V", fmt.Sprintf("cover/ret%d", k), reach, TFalse, vc.propTags("C04"), ins.Pos(), "this return is reachable (the assumptions on the way are consistent)"); o != nil {
			o.ExpectSat = true
		}
	}
	for _, h := range vc.fc.PostHints {
		call, ok := h.E.(*ECall)
		if !ok || vc.useLemma(call.Fn) == nil {
			panic("posthint must be a lemma application: " + h.Src)
		}
		if vc.mentionsUnallocatedLocal(h.E, vars) {
			continue
		}
		vc.assume(Implies(reach, instantiateLemma(env, vc.useLemma(call.Fn), call.Args)))
	}
	for j, en := range vc.fc.Ensures {
		if vc.mentionsUnallocatedLocal(en.E, vars) {
			// the clause talks about a local that does not exist yet at this return
			if vc.discovery == 0 {
				lab := en.Name
				if lab == "" {
					lab = fmt.Sprintf("%d", j+1)
				}
				vc.skipped = append(vc.skipped, fmt.Sprintf("%s/post/%s/ret%d", vc.name, lab, k))
			}
			continue
		}
		label := en.Name
		if label == "" {
			label = fmt.Sprintf("%d", j+1)
		}
		en := en
		t, extra := vc.goalLocal(func() Term { return env.boolean(en.E) })
		if o := vc.oblige("R", fmt.Sprintf("post/%s/ret%d", label, k), reach, t, clauseTags(en, tags), ins.Pos(), en.Src); o != nil {
			o.Extra = extra
		}
	}
	if vc.fc.Fresh && len(ins.Results) > 0 {
		r := vars["ret"]
		vc.oblige("F", fmt.Sprintf("fresh/ret%d", k), reach, Ge(r.T, vc.entry.cnt), vc.propTags("C06"), ins.Pos(), "result is freshly allocated")
	}
	if vc.defKeys != nil {
		cond := TTrue
		if vc.fc.OutsWhen != nil {
			cond = env.boolean(vc.fc.OutsWhen.E)
		}
		for _, name := range vc.fc.Outs {
			pv := vc.params[name]
			goal := Implies(And(cond, Ne(pv.T, IntLit(0))), vc.allDef(st, pv.T, pv.Ty.Elem))
			src := "every field of the destination " + name + " is written"
			if vc.fc.OutsWhen != nil {
				src += " when " + vc.fc.OutsWhen.Src
			}
			vc.oblige("D", fmt.Sprintf("written/%s/ret%d", name, k), reach, goal, []string{"C05", "C06"}, ins.Pos(), src)
		}
		e0 := vc.env(vc.entry, nil)
		for _, ox := range vc.fc.OutFields {
			var gs []Term
			for _, lf := range vc.lvalue(e0, ox) {
				if vc.defKeys[lf.Key] {
					gs = append(gs, vc.isDef(st, lf.Key, lf.Idx))
				}
			}
			src := "the field " + exprString(ox) + " is written"
			if vc.fc.OutsWhen != nil {
				src += " when " + vc.fc.OutsWhen.Src
			}
			vc.oblige("D", fmt.Sprintf("written/%s/ret%d", exprString(ox), k), reach, Implies(cond, And(gs...)), []string{"C05", "C06"}, ins.Pos(), src)
		}
	}
	if vc.fc.HasAssigns {
		vc.frameChecks(st, reach, k, ins.Pos())
	}
	if vc.fc.Delegate != "" {
		vc.delegationChecks(st, reach, k, ins.Pos())
	}
	vc.bridgeChecks(reach, k, ins.Pos())
}

// bridgeChecks (class T, C16): a method (*BigInt).M of layer 1 for which math/big.(*Int).M is under an (assumed)
// contract is a bridge to "the math/big.Int method of the same name". On every return whose path materialised a
// big.Int (called inner, innerOrNil, innerOrAlias or innerOrNilOrAlias) that method was called exactly once; and the
// only other math/big.(*Int) methods the body may call are those listed in its bridge-also clause.
func (vc *FuncVC) bridgeChecks(reach Term, k int, pos token.Pos) {
	if !vc.L.layer1 || !strings.HasPrefix(vc.name, "(*BigInt).") {
		return
	}
	want := "math/big.(*Int)." + strings.TrimPrefix(vc.name, "(*BigInt).")
	if vc.W.spec.Funcs[want] == nil {
		return
	}
	tags := vc.propTags("C16")
	allowed := map[string]bool{want: true}
	for _, a := range vc.fc.BridgeAlso {
		allowed[a] = true
	}
	marker := map[string]bool{"(*BigInt).inner": true, "(*BigInt).innerOrNil": true, "(*BigInt).innerOrAlias": true, "(*BigInt).innerOrNilOrAlias": true}
	var slow, same []Term
	var foreign []string
	loopy := false
	for _, c := range vc.callLog {
		switch {
		case marker[c.name]:
			slow = append(slow, c.reach)
		case c.name == want:
			same = append(same, Ite(c.reach, IntLit(1), IntLit(0)))
			loopy = loopy || c.inLoop
		case strings.HasPrefix(c.name, "math/big.(*Int).") && !allowed[c.name]:
			foreign = append(foreign, c.name)
		}
	}
	if k == 1 || len(foreign) > 0 {
		sort.Strings(foreign)
		vc.oblige("T", fmt.Sprintf("bridge/only-same-name/ret%d", k), reach, BoolLit(len(foreign) == 0 && !loopy), tags, pos, "calls no math/big.(*Int) method other than "+want+" (and its bridge-also list): "+strings.Join(foreign, ", "))
	}
	if len(slow) == 0 {
		return
	}
	cnt := IntLit(0)
	for _, t := range same {
		cnt = Add(cnt, t)
	}
	vc.oblige("T", fmt.Sprintf("bridge/same-name-once/ret%d", k), reach, Implies(Or(slow...), Eq(cnt, IntLit(1))), tags, pos, "a path that materialises a big.Int calls "+want+" exactly once")
}

// frameChecks: every pre-existing location outside the assigns set is unchanged (class F1).
func (vc *FuncVC) frameChecks(st *State, reach Term, k int, pos token.Pos) {
	e0 := vc.env(vc.entry, nil)
	byKey := map[string][]Term{}
	for _, ax := range vc.fc.Assigns {
		for _, lf := range vc.lvalue(e0, ax) {
			byKey[lf.Key] = append(byKey[lf.Key], lf.Idx)
		}
	}
	var ks []string
	for key := range st.heap {
		ks = append(ks, key)
	}
	sort.Strings(ks)
	for _, key := range ks {
		if strings.HasPrefix(key, "def.") || strings.HasPrefix(key, "State.") {
			continue // ghost
		}
		s := vc.keys[key]
		final := st.heap[key]
		init := vc.arr(vc.entry, key, s)
		if final.S == init.S {
			continue
		}
		sk := vc.named("sk_"+sanitize(key), SInt)
		conds := []Term{Lt(IntLit(0), sk), Lt(sk, vc.entry.cnt)}
		for _, ix := range byKey[key] {
			conds = append(conds, Ne(sk, ix))
		}
		for _, r := range vc.entryRegions() {
			if r.Key == key {
				conds = append(conds, Not(r.contains(sk)))
			}
		}
		goal := Implies(And(conds...), Eq(Select(final, sk, s), Select(init, sk, s)))
		vc.oblige("F", fmt.Sprintf("frame/%s/ret%d", key, k), reach, goal, vc.propTags("C06", "C18", "C05"), pos, "only the assigns set is written: "+key)
	}
}

// mentionsUnallocatedLocal: the expression names a source-level local of the function that has no value at this point.
func (vc *FuncVC) mentionsUnallocatedLocal(x Expr, vars map[string]SVal) bool {
	found := false
	var walk func(x Expr)
	walk = func(x Expr) {
		switch x := x.(type) {
		case *EIdent:
			if _, ok := vars[x.Name]; ok {
				return
			}
			if _, ok := vc.params[x.Name]; ok {
				return
			}
			if vc.localNames[x.Name] {
				found = true
			}
		case *EOld:
			walk(x.X)
		case *ELet:
			walk(x.V)
			walk(x.Body)
		case *EForall:
			walk(x.Lo)
			walk(x.Hi)
			walk(x.Body)
		case *EUn:
			walk(x.X)
		case *EBin:
			walk(x.X)
			walk(x.Y)
		case *EField:
			walk(x.X)
		case *EIndex:
			walk(x.X)
			walk(x.I)
		case *ECall:
			for _, a := range x.Args {
				walk(a)
			}
		}
	}
	walk(x)
	return found
}

// mentionsUnknown: the expression uses an identifier that is neither bound in vars nor a package-level name
// (i.e. it names a local of the function the clause belongs to).
func mentionsUnknown(W *World, x Expr, vars map[string]SVal) bool {
	found := false
	var walk func(x Expr, bound map[string]bool)
	walk = func(x Expr, bound map[string]bool) {
		switch x := x.(type) {
		case *EIdent:
			if _, ok := vars[x.Name]; ok || bound[x.Name] {
				return
			}
			if W.pkg.Types.Scope().Lookup(x.Name) != nil {
				return
			}
			found = true
		case *EOld:
			walk(x.X, bound)
		case *ELet:
			walk(x.V, bound)
			b2 := map[string]bool{x.Name: true}
			for k := range bound {
				b2[k] = true
			}
			walk(x.Body, b2)
		case *EForall:
			walk(x.Lo, bound)
			walk(x.Hi, bound)
			b2 := map[string]bool{x.Var: true}
			for k := range bound {
				b2[k] = true
			}
			walk(x.Body, b2)
		case *EUn:
			walk(x.X, bound)
		case *EBin:
			walk(x.X, bound)
			walk(x.Y, bound)
		case *EField:
			walk(x.X, bound)
		case *EIndex:
			walk(x.X, bound)
			walk(x.I, bound)
		case *ECall:
			for _, a := range x.Args {
				walk(a, bound)
			}
		}
	}
	walk(x, map[string]bool{})
	return found
}
