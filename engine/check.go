package main

import (
	"encoding/json"
	"flag"
	"fmt"
	"os"
	"os/exec"
	"path/filepath"
	"sort"
	"strconv"
	"strings"
	"time"
)

type KnownFinding struct {
	Property   string   `json:"property"`
	Properties []string `json:"properties,omitempty"`
	Obligation string   `json:"obligation"`
	Status     string   `json:"status"` // open | fixed
	What       string   `json:"what"`
	Witness    string   `json:"witness,omitempty"`
	Commit     string   `json:"commit,omitempty"`
}

func loadKnown() []KnownFinding {
	data, err := os.ReadFile(filepath.Join(verifDir(), "known_findings.json"))
	if err != nil {
		return nil
	}
	var f struct {
		Findings []KnownFinding `json:"findings"`
	}
	if err := json.Unmarshal(data, &f); err != nil {
		die("known_findings.json: %v", err)
	}
	return f.Findings
}

func verifDir() string {
	if d := os.Getenv("APDVC_VERIF"); d != "" {
		return d
	}
	return "/verif"
}

func hasTag(tags []string, p string) bool {
	for _, t := range tags {
		if t == p {
			return true
		}
	}
	return false
}

// modelText: what the engine assumes where it models a library function or a language feature natively
var modelText = map[string]string{
	"strconv.ParseInt":  "strconv.ParseInt(s, 10, k) succeeds exactly when s is a numeral (an optional sign, then ASCII digits: uf_isnum) whose value fits k bits, and returns uf_numval(s); other bases unconstrained",
	"strconv.ParseUint": "strconv.ParseUint(s, 10, 64) succeeds exactly when s is a numeral without sign whose value is below 2^64, and returns it",
	"strings.ToLower":   "strings.ToLower on a text of ASCII bytes only keeps the length and maps A-Z to a-z; nothing is assumed for other texts",
	"strings.IndexByte": "strings.IndexByte returns the first position holding the byte, or -1 when no position does",
	"strings.HasPrefix": "strings.HasPrefix with a constant prefix: length and bytes; with a variable prefix an uninterpreted function of the two strings",
	"numerals":          "numeral vocabulary (a numeral - uf_isnum - is not empty, ends in a digit and consists of ASCII digits after an optional sign, nothing else; conversely): a text that is z zeros followed by the decimal text of n (uf_utext), or a sign and the decimal text of n (uf_stext), is a numeral of that value - strconv.ParseInt and (big.Int).SetString read what strconv.AppendInt/AppendUint and (big.Int).Append write; the characters uf_dchar of a decimal text are ASCII digits",
	"fmt.State":         "fmt.State: Write appends to a ghost log of the state; Flag, Width and Precision are fixed attributes of the state; a callee handed the state may write to it (its log is then what the callee's contract says)",
	"type-switch":       "type switch / v, ok := x.(T) for string, []byte, int64, float64: ok iff the dynamic-type tag of the interface value is T's; the tag and the wrapped string are recorded where the code wraps a value in an interface",
	"strings":           "strings are immutable sequences of bytes: strlen/strbyte of a string code, exact for constants, related through indexing, slicing, concatenation, conversion from and to []byte and append",
}

var notCovered = map[string][]string{
	"C01": {"that setString produced the value denoted by the text (string reasoning, see C14); Precision 0 outside [MinExponent, MaxExponent] (the property gives no rule)"},
	"C02": {"Sqrt's 'Inexact iff the root is not exactly representable' (accuracy of the iteration, see C11); exact values of Rounded/Clamped (checked only through implications, as the property prescribes)"},
	"C03": {"trap independence of the composite functions rests on the nil-error induction meta-argument (DESIGN 8.6)"},
	"C04": {"that an error-free iteration of Ln's power series makes progress (error exit proved only); 'slow is not hang'; what the parser makes of the bytes of its text (strings are codes with a length and bytes: strlen/strbyte, exact for constants, related through indexing, slicing, concatenation, conversions and append; strings.HasPrefix is uninterpreted, strings.IndexByte only ranged); what a fmt.State, a database/sql source value or any other interface value does (interface method calls are unconstrained, type assertions with ok yield any value); the text produced; functions without contract are listed in DESIGN.md section 14"},
	"C07": {"Sqrt/Cbrt/Exp/Ln/Pow inherit 'fits' from the contract of their final round call"},
	"C13": {"decided: the text round trip for String/Text(G,g,E,e)/MarshalText through setString, Context.SetString, NewFromString, Decimal.SetString, UnmarshalText (formatter writes a text satisfying FinText/SpecText; the parser given such a text for a value inside the limits returns exactly that decimal) and Compose/Decompose over beval. Assumed: the numeral vocabulary (uf_utext/uf_stext texts are numerals of that value: strconv.ParseInt and big.Int.SetString read what strconv.AppendInt and big.Int.Append write), strings.ToLower on ASCII texts, strings.IndexByte/HasPrefix; that parse(format(d)) == d follows from the two contracts is read off their matching hypothesis and conclusion, not machine-checked as one lemma. Value and Scan(string, []byte) are covered through dynamic-type tags on interface values (assumed model of the type switch). Not decided: Text('f') for positive exponents (numeric value only), NaN payload digits (String does not print them), SetFloat64/Float64 and Scan(float64) (floats). Open finding: Text('E') of coefficients longer than 100001 digits"},
	"C14": {"decided: the exact bytes of Append/Text/String/MarshalText for every decimal and verb (plain or scientific layout, the to-scientific-string choice with the documented zero exception, sign, special values, unknown verbs) over the decimal text of the coefficient and of the exponent (uf_dchar: math/big's and strconv's digits are assumed to be the decimal text). Not decided: the parser's acceptance set and 'no partial value' (only: a successful parse is well formed, the mantissa carries no second sign, the digit count handed to setExponent is right); what Format writes for an unknown verb (fmt.Fprintf); the fmt.State is modelled by a ghost log (Write appends; Flag, Width, Precision are fixed attributes of the state): that the real fmt.State behaves so is assumed; rejection of every text outside the grammar (proved: acceptance of every grammatical finite numeric string and of the special-value spellings in any case with optional sign and payload < 2^64; rejection of ASCII texts containing a character that is no digit, sign, point or letter, of ASCII texts that start like a number and contain a letter other than e/E, of nan/snan followed by anything but digits, of ASCII words that are no special-value spelling, of two points, two exponent letters, a sign that is neither first nor right after the e, the empty text, an empty exponent, a text without a digit that is no special value - lifted to SetString/NewFromString (no value and no condition returned), UnmarshalText and Scan; a digitless mantissa, a trailing sign; not proved: non-ASCII texts; completeness of the fourteen classes (that every ASCII text outside the grammar falls in one of them) is argued in DESIGN.md and cross-checked by the bounded stand-in rejection-classes-complete, not proved)"},
	"C16": {"text and byte results (String/Text/Append/Format/Marshal*/GobEncode/Bytes/FillBytes/Bits/Size) have no-panic and representation contracts only - the bytes produced are math/big's and are compared with math/big only by the bounded differential check; SetBits, SetBytes, Rand, the decoders, ModSqrt, ProbablyPrime are specified up to sign/range/representation, not value; And/Or/Xor/Not/Lsh/Sqrt/MulRange/Binomial/SetBit/GCD/ModInverse are proved against uninterpreted math/big operation functions (wrapper plumbing, aliasing, representation), not against a bit-level definition; the unsafe bridge (inner/updateInner) and math/big are assumed contracts, the bridge exercised by the bounded differential check (incl. negative zeros handed back by math/big)"},
	"C17": {"Float64 is covered as plumbing only (the result is what strconv.ParseFloat returns for the scientific string of d, on every path: that it is the nearest float64 is strconv's); SetFloat64 goes through strconv.AppendFloat and the parser: that the stored decimal is the shortest one that round-trips is not decided"},
	"C18": {"schedules are not explored: data-race freedom follows from the proved sequential frame conditions by the stated meta-theorem; races inside math/big or the runtime are out of reach"},
	"C19": {"NumDigits above 128 bits relies on one assumed lemma about the float estimate (bounded stand-in)"},
	"C20": {"monotonicity of Round across different digit counts and coefficient-scaling invariance are not covered"},
}

func cmdCheck(args []string) {
	fs := flag.NewFlagSet("check", flag.ExitOnError)
	tier := fs.String("tier", "", "quick or thorough")
	// flags may follow the property id
	var pos, flg []string
	for i := 0; i < len(args); i++ {
		if strings.HasPrefix(args[i], "-") {
			flg = append(flg, args[i])
			if !strings.Contains(args[i], "=") && i+1 < len(args) {
				flg = append(flg, args[i+1])
				i++
			}
		} else {
			pos = append(pos, args[i])
		}
	}
	fs.Parse(flg)
	if len(pos) != 1 {
		die("usage: apdvc check <property> [--tier quick|thorough]")
	}
	prop := pos[0]
	if *tier == "" {
		*tier = os.Getenv("VERIF_TIER")
	}
	if *tier == "" {
		*tier = "quick"
	}
	seed := int64(0)
	if s := os.Getenv("VERIF_SEED"); s != "" {
		seed, _ = strconv.ParseInt(s, 10, 64)
	}
	start := time.Now()
	// one query directory per process: two checks (or a check and an `apdvc vc`) running at the same time must
	// never read each other's query files
	outDir = filepath.Join(verifDir(), "out", "vc", fmt.Sprintf("%s.%d", prop, os.Getpid()))
	os.RemoveAll(outDir)
	if old, _ := filepath.Glob(filepath.Join(verifDir(), "out", "vc", prop+".*")); len(old) > 5 {
		for _, d := range old[:len(old)-5] {
			os.RemoveAll(d) // keep the disk bounded: directories of runs that reported violations are kept for replay
		}
	}
	W, err := LoadWorld(repoDir())
	if err != nil {
		// the repository does not load: nothing can be decided
		fmt.Printf("ERROR loading %s: %v\n", repoDir(), err)
		os.Exit(2)
	}
	vcs, problems := generateFor(W, nil)
	var obls []*Obligation
	funcs := map[string]bool{}
	trusted := map[string]string{}
	libs := map[string]bool{}
	models := map[string]bool{}
	uncontracted := map[string]bool{}
	localAssumes := map[string]string{}
	unsupported := map[string][]string{}
	var noTerm []string
	var skippedClauses []string
	// Dependency closure. Verification is modular: a function is checked against the contracts of its callees, so
	// what is proved about the functions tagged with the property holds only if every callee (transitively) meets
	// its own contract. Roots are the functions with an obligation tagged with the property; every function reached
	// from a root by at least one call is a dependency and contributes ALL of its obligations, whatever their tags.
	byName := map[string]*FuncVC{}
	for _, vc := range vcs {
		byName[vc.name] = vc
	}
	deps := map[string]bool{}
	var work []string
	for _, vc := range vcs {
		for _, o := range vc.obls {
			if hasTag(o.Tags, prop) && o.Class != "V" {
				work = append(work, vc.name)
				break
			}
		}
	}
	seen := map[string]bool{}
	for len(work) > 0 {
		n := work[len(work)-1]
		work = work[:len(work)-1]
		if seen[n] {
			continue
		}
		seen[n] = true
		if vc := byName[n]; vc != nil {
			for c := range vc.contractedUsed {
				if byName[c] != nil {
					deps[c] = true
					work = append(work, c)
				}
			}
		}
	}
	lemmasNeeded := map[string]bool{}
	var closureOnly []string
	for _, vc := range vcs {
		sel := false
		for _, o := range vc.obls {
			if o.Class == "V" {
				continue
			}
			if hasTag(o.Tags, prop) {
				obls = append(obls, o)
				sel = true
			} else if deps[vc.name] && !o.Ghost {
				// (an obligation of a clause over ghost variables - the text round trip - belongs to the properties it is
				// tagged with only: no ghost-free clause can make use of it, so the closure does not need it)
				o.Tags = append(append([]string{}, o.Tags...), prop)
				obls = append(obls, o)
				sel = true
			}
		}
		if !sel {
			continue
		}
		if deps[vc.name] && !hasTag(vc.fc.Props, prop) {
			closureOnly = append(closureOnly, vc.name)
		}
		for l := range vc.lemmasUsed {
			lemmasNeeded[l] = true
		}
		for _, o := range vc.obls {
			if o.Class == "V" {
				o.Tags = append(o.Tags, prop)
				obls = append(obls, o)
			}
		}
		funcs[vc.name] = true
		for n := range vc.trustedUsed {
			trusted[n] = W.spec.Funcs[n].TrustWhy
		}
		for n := range vc.uncontracted {
			uncontracted[n] = true
		}
		for _, n := range vc.notes {
			if strings.HasPrefix(n, "library:") {
				libs[strings.TrimPrefix(n, "library:")] = true
			}
			if strings.HasPrefix(n, "model:") {
				models[strings.TrimPrefix(n, "model:")] = true
			}
		}
		for k := range vc.declared {
			if strings.HasPrefix(k, "model-note:") {
				models[strings.TrimPrefix(k, "model-note:")] = true
			}
			if k == "strbyte" {
				models["strings"] = true
			}
		}
		for n, cl := range vc.fc.LocalAssume {
			localAssumes[vc.name+": "+n] = cl.Src + " -- " + cl.Name
		}
		if len(vc.unsup) > 0 {
			unsupported[vc.name] = vc.unsup
		}
		if prop == "C04" {
			noTerm = append(noTerm, vc.noTerm...)
		}
		skippedClauses = append(skippedClauses, vc.skipped...)
	}
	sort.Strings(noTerm)
	// lemma obligations (class G) tagged with the property
	sort.Strings(closureOnly)
	lemmaObls := lemmaObligations(W, prop, lemmasNeeded)
	obls = append(obls, lemmaObls...)

	timeout := 20 * time.Second
	portfolio := []string{"z3-new", "z3", "cvc5"}
	if *tier == "thorough" {
		timeout = 90 * time.Second
	}
	// an obligation listed as an open finding is expected to fail: give it a short timeout (if the defect has been
	// repaired it is still proved within it - the recorded ones are otherwise decided in about a second)
	var rest, listed []*Obligation
	openNames := map[string]bool{}
	for _, k := range loadKnown() {
		if k.Status == "open" {
			openNames[k.Obligation] = true
		}
	}
	for _, o := range obls {
		if openNames[o.Name] {
			listed = append(listed, o)
		} else {
			rest = append(rest, o)
		}
	}
	solveAll(rest, timeout, portfolio, 12)
	// an obligation that ran out of time while twelve others were being solved next to it gets a second, quieter run
	// (a timeout is 'undecided', and machine load must not turn into an alarm); refutations are never retried
	if *tier != "thorough" {
		var again []*Obligation
		for _, o := range rest {
			if o.Status == "timeout" || o.Status == "unknown" {
				again = append(again, o)
			}
		}
		if len(again) > 0 && len(again) <= 24 {
			solveAll(again, 2*timeout, portfolio, 4)
		}
	}
	if len(listed) > 0 {
		solveAll(listed, 4*time.Second, portfolio, 12)
	}

	// evaluated base cases and bounded stand-ins (labelled bounded; never counted as proved)
	btests := []string{"TestVerifGlobals"}
	if prop == "C16" && *tier != "thorough" {
		// the stand-in for the trusted unsafe bridge (inner/updateInner) is cheap enough for every change
		btests = append(btests, "TestVerifBigIntBridge")
	}
	if prop == "C14" {
		// completeness of the rejection classes (an argument on paper, DESIGN 7/C14) cross-checked exhaustively on short texts
		btests = append(btests, "TestVerifRejComplete")
	}
	if *tier == "thorough" {
		switch prop {
		case "C19", "C04":
			btests = append(btests, "TestVerifNumDigitsEstimate")
		case "C16", "C05", "C18":
			btests = append(btests, "TestVerifBigIntBridge")
		}
	}
	bounded, boundedFail := runBounded(W, btests)
	if *tier == "thorough" {
		// the lemma library behind the ground instances and the axioms: re-checked by Lean 4 + Mathlib
		cmd := exec.Command("lake", "env", "lean", filepath.Join(verifSrcDir(), "lemmas", "Apd.lean"))
		cmd.Dir = "/opt/veriftools/mathlib4"
		out, err := cmd.CombinedOutput()
		st := "checked"
		if err != nil || strings.Contains(string(out), "error") || strings.Contains(string(out), "sorry") {
			st = "FAILED: " + truncate(string(out), 500)
			if boundedFail == "" {
				boundedFail = "lean lemma library: " + st
			}
		}
		bounded = append(bounded, map[string]string{"name": "lean-lemma-library", "label": "machine-checked (Lean 4.33 + Mathlib)", "result": st})
	}

	known := loadKnown()
	isKnown := func(o *Obligation) *KnownFinding {
		for i := range known {
			k := &known[i]
			// properties ["*"]: the function lies in the dependency closure of many checks; the finding is the same in each
			if k.Status == "open" && k.Obligation == o.Name && (k.Property == prop || hasTag(k.Properties, prop) || hasTag(k.Properties, "*")) {
				return k
			}
		}
		return nil
	}
	discharged := 0
	var solverTime float64
	perBackend := map[string]int{}
	var violations []*Obligation
	var knownHit []string
	vacuity := 0
	for _, o := range obls {
		solverTime += o.Time
		if o.Class == "V" {
			vacuity++
		}
		if o.Status == "proved" {
			discharged++
			perBackend[o.Backend]++
			continue
		}
		if k := isKnown(o); k != nil {
			knownHit = append(knownHit, fmt.Sprintf("KNOWN-FINDING: property=%s %s [%s]", prop, k.What, o.Name))
			continue
		}
		violations = append(violations, o)
	}
	for _, p := range problems {
		// a contract that no longer matches the code is a broken check, reported as a violation of the machinery
		fmt.Println("PROBLEM:", p)
	}
	for _, l := range knownHit {
		fmt.Println(l)
	}
	// replay
	repDir := filepath.Join(verifDir(), "replays", prop)
	for _, o := range violations {
		os.MkdirAll(repDir, 0o755)
		path := filepath.Join(repDir, sanitize(o.Name)+".json")
		confirmed := writeReplay(W, o, path, prop, timeout)
		suffix := ""
		if !confirmed {
			suffix = " no-failing-input-found"
		}
		fmt.Printf("VIOLATION property=%s replay=%s obligation=%s status=%s%s\n", prop, path, o.Name, o.Status, suffix)
	}
	// evidence
	var fl []string
	for f := range funcs {
		fl = append(fl, f)
	}
	sort.Strings(fl)
	// thorough tier: every contract of the property is also checked at run time on the real code (sampled
	// boundary inputs, all alias patterns, the class D differential experiment). Labelled run-time checking,
	// never counted as proof; it exercises the assumed contracts (math/big, the unsafe bridge) the proofs rest on.
	var rtc map[string]interface{}
	rtcFail := 0
	if *tier == "thorough" && len(violations) == 0 {
		checked, trials, fails := runtimeCheck(W, fl)
		rtc = map[string]interface{}{"label": "run-time assertion checking (sampled, not proof)", "functions": checked, "inputs": trials, "failures": len(fails)}
		for i, f := range fails {
			os.MkdirAll(repDir, 0o755)
			path := filepath.Join(repDir, fmt.Sprintf("runtime_%d.json", i+1))
			bd, _ := json.MarshalIndent(map[string]interface{}{"property": prop, "obligation": f.name + "/runtime", "counterexample": map[string]interface{}{"failing_input": f.msg, "function": f.name}, "replay_test": f.testFile}, "", " ")
			os.WriteFile(path, bd, 0o644)
			fmt.Printf("VIOLATION property=%s replay=%s obligation=%s/runtime %s\n", prop, path, f.name, truncate(f.msg, 200))
			rtcFail++
		}
	}
	var samples []map[string]interface{}
	for i, o := range obls {
		if i%(len(obls)/8+1) == 0 {
			samples = append(samples, map[string]interface{}{"obligation": o.Name, "class": o.Class, "status": o.Status, "backend": o.Backend, "time_s": o.Time, "pos": o.Pos, "clause": o.Src})
		}
	}
	tb := []string{
		"apdvc VC generator (SSA->SMT translation written for this task) and go/ssa's construction of SSA from /repo's working tree",
		"SMT solvers: z3 5.1.0 (z3-new), z3 4.8.12, cvc5 1.0.3; an unsat from any one is accepted",
		"lemma library instantiated on ground terms (pow10/nd10/pow2/bitlen brackets, monotonicity, Euclidean division characterisation); axioms pow10_add, div_lt, div_ge stated in the contracts file",
		"assumption A-size: every coefficient has fewer than 10^9 decimal digits",
		"global invariant of the package-level tables and constants: base case checked by evaluation (TestVerifGlobals), preservation by the frame obligations (class F)",
		"proofs are for 64-bit words (bits.UintSize == 64)",
	}
	var assumptions []string
	for n, why := range trusted {
		assumptions = append(assumptions, fmt.Sprintf("trusted contract: %s (%s)", n, why))
	}
	for _, l := range W.spec.Lemmas {
		if l.Assumed {
			assumptions = append(assumptions, "axiom: "+l.Name+": "+strings.TrimSpace(l.Src))
		}
	}
	for n, s := range localAssumes {
		assumptions = append(assumptions, "assumed on a float-derived local: "+n+": "+s)
	}
	for n := range libs {
		if !models[n] {
			assumptions = append(assumptions, "library call modelled as pure with unconstrained result: "+n)
		}
	}
	for n := range models {
		assumptions = append(assumptions, "assumed model of a library function or language feature (engine built-in): "+modelText[n])
	}
	for n := range uncontracted {
		assumptions = append(assumptions, "callee without contract (whole heap havocked at the call): "+n)
	}
	for n, us := range unsupported {
		assumptions = append(assumptions, fmt.Sprintf("constructs outside the subset in %s (values unconstrained): %s", n, strings.Join(us, "; ")))
	}
	assumptions = append(assumptions, "machine integers: Go's wrap-around semantics are modelled exactly; floats are unconstrained; strings are codes with a length and bytes (see the string model); values of the named string type Rounder are compared as codes")
	sort.Strings(assumptions)
	// V vacuity guard, S safety, F frame, R postcondition/assert, L loop, T delegation, G lemma/hint, D destination definedness and operand freshness
	byClass := map[string]int{}
	for _, o := range obls {
		byClass[o.Class]++
	}
	ev := map[string]interface{}{
		"property_id": prop,
		"tier":        *tier,
		"seed":        seed,
		"level":       "proof",
		"coverage": map[string]interface{}{
			"obligations":                          len(obls) - len(knownHit),
			"obligations_listed_as_open_findings":  len(knownHit),
			"discharged":                           discharged,
			"checker_cmd":                          "bin/apdvc check " + prop + " --tier " + *tier,
			"trusted_base":                         tb,
			"samples":                              samples,
			"functions_under_contract":             fl,
			"functions_in_dependency_closure_only": closureOnly,
			"per_backend":                          perBackend,
			"solver_time_s":                        solverTime,
			"vacuity_guards":                       vacuity,
			"lemma_obligations":                    len(lemmaObls),
			"not_covered":                          notCovered[prop],
			"known_findings":                       knownHit,
			"generator_problems":                   problems,
			"obligations_by_class":                 byClass,
			"clauses_naming_locals_not_checked_at_early_returns": skippedClauses,
			"loops_without_termination_obligation":               noTerm,
			"bounded_standins":                                   bounded,
			"runtime_checking":                                   rtc,
			"exhaustive":                                         false,
		},
		"assumptions": assumptions,
		"wall_s":      time.Since(start).Seconds(),
		"violations":  len(violations),
	}
	os.MkdirAll(filepath.Join(verifDir(), "evidence"), 0o755)
	data, _ := json.MarshalIndent(ev, "", " ")
	os.WriteFile(filepath.Join(verifDir(), "evidence", prop+".json"), data, 0o644)
	fmt.Printf("%s: %d obligations, %d discharged, %d known findings, %d violations, %d functions, %.1fs\n", prop, len(obls)-len(knownHit), discharged, len(knownHit), len(violations), len(fl), time.Since(start).Seconds())
	if len(violations) == 0 && len(problems) == 0 {
		os.RemoveAll(outDir) // nothing to replay
	} else {
		// keep only the queries of the violated obligations (a full set is close to a gigabyte)
		keep := map[string]bool{}
		for _, o := range violations {
			for _, suf := range []string{"", ".l1", ".cvc5"} {
				keep[obFile(o, suf)] = true
			}
		}
		if files, err := filepath.Glob(filepath.Join(outDir, "*")); err == nil {
			for _, f := range files {
				if !keep[f] {
					os.Remove(f)
				}
			}
		}
	}
	if boundedFail != "" {
		os.MkdirAll(repDir, 0o755)
		bp := filepath.Join(repDir, "bounded.json")
		bd, _ := json.MarshalIndent(map[string]interface{}{"property": prop, "obligation": "bounded stand-in / evaluated base case", "output": boundedFail}, "", " ")
		os.WriteFile(bp, bd, 0o644)
		fmt.Printf("VIOLATION property=%s replay=%s an evaluated assumption of the proofs does not hold on this tree\n", prop, bp)
		os.Exit(1)
	}
	if rtcFail > 0 {
		os.Exit(1)
	}
	if len(violations) > 0 || len(problems) > 0 || len(obls) == 0 {
		if len(obls) == 0 {
			fmt.Println("no obligations generated: vacuous check")
		}
		if len(violations) == 0 && len(problems) > 0 {
			fmt.Printf("VIOLATION property=%s replay=%s broken-contracts no-failing-input-found\n", prop, filepath.Join(repDir, "problems.json"))
			os.MkdirAll(repDir, 0o755)
			pd, _ := json.MarshalIndent(problems, "", " ")
			os.WriteFile(filepath.Join(repDir, "problems.json"), pd, 0o644)
		}
		os.Exit(1)
	}
}

// lemmaObligations proves the (non-axiom) lemmas tagged with prop: parameters become fresh constants.
// Lemmas instantiated by the functions of the check (needed), and the lemmas those are proved from, are included
// whatever their tags.
func lemmaObligations(W *World, prop string, needed map[string]bool) []*Obligation {
	var out []*Obligation
	need := map[string]bool{}
	var visit func(name string)
	visit = func(name string) {
		lm := W.spec.lemma(name)
		if lm == nil || need[lm.Name] {
			return
		}
		need[lm.Name] = true
		for _, u := range lm.Using {
			if call, ok := u.(*ECall); ok {
				visit(call.Fn)
			}
		}
	}
	for _, lm := range W.spec.Lemmas {
		if needed[lm.Name] || (prop != "" && hasTag(lm.Tags, prop)) {
			visit(lm.Name)
		}
	}
	for _, lm := range W.spec.Lemmas {
		if lm.Assumed || (prop != "" && !need[lm.Name]) {
			continue
		}
		g := newGen(W, false)
		g.reveal = map[string]bool{}
		for name := range W.spec.Macros {
			g.reveal[name] = true
		}
		env := &Env{g: g, cur: g.entry, old: g.entry, vars: map[string]SVal{}}
		func() {
			defer func() {
				if r := recover(); r != nil {
					out = append(out, &Obligation{Name: "lemma/" + lm.Name, Class: "G", Tags: lm.Tags, Guard: TTrue, Goal: TFalse, gen: g, Src: fmt.Sprint(r)})
				}
			}()
			for _, p := range lm.Params {
				ty := env.parseType(p.Type)
				c := g.named("l_"+p.Name, ty.sort())
				env.vars[p.Name] = SVal{T: c, Ty: ty}
			}
			for _, u := range lm.Using {
				call, ok := u.(*ECall)
				if !ok {
					panic("using needs a lemma application")
				}
				other := W.spec.lemma(call.Fn)
				if other == nil || other == lm {
					panic("using: unknown lemma " + call.Fn)
				}
				g.assume(instantiateLemma(env, other, call.Args))
			}
			goal := env.boolean(lm.Body)
			out = append(out, &Obligation{Name: "lemma/" + lm.Name, Fn: "lemma", Class: "G", Tags: lm.Tags, Guard: TTrue, Goal: goal, NFacts: len(g.facts), NDecls: len(g.decls), gen: g, Src: lm.Src})
		}()
	}
	return out
}

// writeReplay records a failed obligation; returns true when a concrete failing input was confirmed on the real code.
var diagCount = map[string]int{}
var witnessCache = map[string]*Witness{}

// concretiseCached: the run-time check exercises the whole contract of the function, so its outcome is the same for
// every failed obligation of that function - except that a hang counts only for termination obligations.
func concretiseCached(W *World, o *Obligation, timeout time.Duration) *Witness {
	key := o.Fn
	if strings.Contains(o.Name, "/errexit") || strings.Contains(o.Name, "/decreases") {
		key += "#termination"
	}
	if w, ok := witnessCache[key]; ok {
		return w
	}
	w := concretise(W, o, timeout)
	witnessCache[key] = w
	return w
}

func writeReplay(W *World, o *Obligation, path, prop string, timeout time.Duration) bool {
	rec := map[string]interface{}{
		"property":      prop,
		"obligation":    o.Name,
		"class":         o.Class,
		"function":      o.Fn,
		"position":      o.Pos,
		"clause":        o.Src,
		"solver_status": o.Status,
		"backend":       o.Backend,
		"solver_output": truncate(o.Output, 4000),
		"query_file":    obFile(o, ""),
	}
	// which conjuncts fail: for the first few failed obligations of a function only, with a short timeout (a change that
	// breaks one function typically fails dozens of its obligations; splitting every one of them costs minutes)
	diagCount[o.Fn]++
	if diagCount[o.Fn] <= 3 {
		dt := timeout
		if dt > 6*time.Second {
			dt = 6 * time.Second
		}
		rec["failing_parts"] = diagnose(o, dt)
	}
	confirmed := false
	if w := concretiseCached(W, o, timeout); w != nil {
		rec["counterexample"] = w.Desc
		rec["replay_test"] = w.TestFile
		rec["replay_output"] = w.Output
		confirmed = w.Confirmed
	}
	rec["confirmed_on_real_code"] = confirmed
	data, _ := json.MarshalIndent(rec, "", " ")
	os.WriteFile(path, data, 0o644)
	return confirmed
}

func truncate(s string, n int) string {
	if len(s) > n {
		return s[:n] + "..."
	}
	return s
}

// runBounded runs the in-package harness tests (global invariant base case, bounded stand-ins) against the working tree.
func runBounded(W *World, tests []string) ([]map[string]string, string) {
	dir, err := os.MkdirTemp("", "apdvc-bounded")
	if err != nil {
		return nil, err.Error()
	}
	defer os.RemoveAll(dir)
	ov := map[string]map[string]string{"Replace": {filepath.Join(W.repoDir, "zz_verif_bounded_test.go"): filepath.Join(verifSrcDir(), "harness", "bounded_test.go")}}
	ovData, _ := json.Marshal(ov)
	ovFile := filepath.Join(dir, "overlay.json")
	os.WriteFile(ovFile, ovData, 0o644)
	cmd := exec.Command("go", "test", "-overlay", ovFile, "-vet=off", "-count=1", "-timeout", "600s", "-run", "^("+strings.Join(tests, "|")+")$", "-v", ".")
	cmd.Dir = W.repoDir
	cmd.Env = append(os.Environ(), "GOFLAGS=-mod=mod", "GOPROXY=off", "GOSUMDB=off", "GOTOOLCHAIN=local")
	out, err := cmd.CombinedOutput()
	var res []map[string]string
	for _, line := range strings.Split(string(out), "\n") {
		if strings.HasPrefix(line, "BOUNDED ") {
			m := map[string]string{}
			for _, f := range strings.Fields(line[8:]) {
				if kv := strings.SplitN(f, "=", 2); len(kv) == 2 {
					m[kv[0]] = kv[1]
				}
			}
			m["label"] = "bounded"
			res = append(res, m)
		}
	}
	if err != nil || len(res) != len(tests) {
		return res, truncate(string(out), 3000)
	}
	return res, ""
}

// verifSrcDir is where the committed harness lives (always /verif, also when outputs go elsewhere).
func verifSrcDir() string {
	if d := os.Getenv("APDVC_SRC"); d != "" {
		return d
	}
	return "/verif"
}

type rtFail struct{ name, msg, testFile string }

// runtimeCheck runs the contract-to-Go harness of every named function on the real code.
func runtimeCheck(W *World, names []string) (int, int, []rtFail) {
	type res struct {
		name, out, src string
	}
	ch := make(chan res)
	sem := make(chan bool, 8)
	n := 0
	for _, name := range names {
		fc, fn := W.spec.Funcs[name], W.funcs[name]
		if fc == nil || fn == nil || fn.Blocks == nil || fn.Pkg != W.spkg {
			continue
		}
		src, err := W.racTest(fn, fc)
		if err != nil {
			continue
		}
		n++
		go func(name, src string) {
			sem <- true
			out, _ := runRAC(W, src, []string{"VERIF_SEED=" + os.Getenv("VERIF_SEED"), "RAC_SECONDS=8", "RAC_TRIALS=20000"}, 150*time.Second)
			<-sem
			ch <- res{name, out, src}
		}(name, src)
	}
	var fails []rtFail
	trials := 0
	for i := 0; i < n; i++ {
		r := <-ch
		for _, l := range strings.Split(r.out, "\n") {
			if j := strings.Index(l, "RACDONE trials="); j >= 0 {
				var k int
				fmt.Sscanf(l[j:], "RACDONE trials=%d", &k)
				trials += k
			}
			if j := strings.Index(l, "RACFAIL "); j >= 0 {
				if strings.Contains(l, "kind=hang") {
					continue // slow or hung: only termination obligations may count it
				}
				keep := filepath.Join(verifDir(), "replays", "tests")
				os.MkdirAll(keep, 0o755)
				tf := filepath.Join(keep, sanitize(r.name)+"_runtime_test.go")
				os.WriteFile(tf, []byte(r.src), 0o644)
				fails = append(fails, rtFail{r.name, strings.TrimSpace(l[j+8:]), tf})
			}
		}
	}
	return n, trials, fails
}
