package main

import (
	"fmt"
	"os"
	"regexp"
	"strconv"
	"strings"
	"unicode"
)

// ---------------------------------------------------------------- AST

type Expr interface{}

type (
	ELit   struct{ V string } // integer literal
	EStr   struct{ S string } // string literal (strings are integer codes in the logic)
	EBool  struct{ V bool }
	ENil   struct{}
	EIdent struct{ Name string }
	EField struct {
		X    Expr
		Name string
	}
	EIndex struct{ X, I Expr }
	ECall  struct {
		Fn   string
		Args []Expr
	}
	EUn struct {
		Op string
		X  Expr
	}
	EBin struct {
		Op   string
		X, Y Expr
	}
	EOld struct{ X Expr }
	ELet struct {
		Name    string
		V, Body Expr
	}
	EForall struct {
		Var    string
		Lo, Hi Expr
		Body   Expr
	}
)

type MacroParam struct{ Name, Type string }

type Macro struct {
	L1Only bool // representation-level predicate: true when seen from layer 2
	Opaque bool
	Name   string
	Params []MacroParam
	Ret    string
	Body   Expr
}

type Clause struct {
	Kind string   // requires, ensures, assigns, invariant, decreases, ...
	Tags []string // property ids
	Name string   // optional label
	E    Expr
	Src  string
	Loop int
	When Expr // decreases: condition on the entry state under which the measure is claimed
}

type FuncContract struct {
	Name         string // e.g. (*Decimal).setExponent, NumDigits, math/big.(*Int).Add
	Props        []string
	Requires     []*Clause
	Sample       []*Clause // sampling restriction for run-time checking only
	Ensures      []*Clause
	Assigns      []Expr
	HasAssigns   bool
	Nilable      map[string]bool
	Ghosts       []MacroParam // ghost NAME: TYPE, ...: logical variables of the contract, universally quantified (fresh constants in the VCs); clauses that mention one are not checked at run time
	Fresh        bool         // result is a freshly allocated object
	Trusted      bool         // body not verified
	TrustWhy     string
	Layer1       bool
	Always       []string          // always SITE: the library call at SITE is made on every path to every return
	Forwards     string            // forwards SITE: every return hands back exactly the results of the library call at SITE (CALLEE#n)
	BridgeAlso   []string          // bridge-also: math/big methods a same-name BigInt wrapper may call besides the one of its own name
	Invs         map[int][]*Clause // loop ordinal -> invariants
	Decr         map[int]*Clause
	LoopHints    map[int][]*Clause
	ErrExit      map[int]*Clause // loop ordinal -> ErrDecimal local that must be clean whenever the loop iterates again
	Hints        []*Clause       // ground lemma instances / extra facts to be proved then assumed at entry? (proved as obligations first)
	Outs         []string        // destination parameters (class D: defined before read, fully written)
	LoopLets     map[int][]*Clause
	BackHints    map[int][]*Clause
	BackAsserts  map[int][]*Clause
	Imports      map[string][]string // wrapper -> labels of the delegate's ensures assumed at its call sites
	DeadRets     map[int]string      // returns declared dead code (no cover obligation)
	PostHints    []*Clause           // lemma applications instantiated at each return
	Reads        []Expr              // restricts which fields of an operand are read (class D)
	OutFields    []Expr              // single fields that are written on every return (class D)
	OutsWhen     *Clause             // condition (over the post state) under which the destinations are fully written
	Operands     []string
	Defines      []Expr // leaves always defined by the function
	NoBody       bool
	Delegate     string // callee the function must delegate to (class T)
	DelegateArgs []Expr
	Reveal       map[string]bool
	Asserts      map[string][]*Clause // call site (callee#ordinal) -> ghost assertions proved, then assumed, just before the call
	LocalAssume  map[string]*Clause   // assumptions on float-derived locals (listed in evidence)
	Allocates    bool
	Exported     bool
	Line         int
}

type Lemma struct {
	Name    string
	Params  []MacroParam
	Body    Expr
	Tags    []string
	Assumed bool
	Using   []Expr
	Why     string
	Src     string
}

type GlobalInv struct {
	Global string // name of the package-level variable
	Var    string // index variable for element invariants ("" for whole-object)
	E      Expr
	Src    string
}

type Spec struct {
	Funcs   map[string]*FuncContract
	Order   []string
	Macros  map[string]*Macro
	Lemmas  []*Lemma
	Globals []*GlobalInv
}

// ---------------------------------------------------------------- lexer

type tok struct {
	k string // "id", "num", "op", "eof"
	s string
}

func lex(s string) ([]tok, error) {
	var out []tok
	i := 0
	for i < len(s) {
		c := s[i]
		if c == ' ' || c == '\t' || c == '\n' {
			i++
			continue
		}
		if unicode.IsLetter(rune(c)) || c == '_' || c == '#' {
			j := i + 1
			for j < len(s) && (unicode.IsLetter(rune(s[j])) || unicode.IsDigit(rune(s[j])) || s[j] == '_') {
				j++
			}
			out = append(out, tok{"id", s[i:j]})
			i = j
			continue
		}
		if c == '"' {
			j := i + 1
			for j < len(s) && s[j] != '"' {
				j++
			}
			if j >= len(s) {
				return nil, fmt.Errorf("unterminated string in %q", s)
			}
			out = append(out, tok{"str", s[i+1 : j]})
			i = j + 1
			continue
		}
		if unicode.IsDigit(rune(c)) {
			j := i + 1
			for j < len(s) && (unicode.IsDigit(rune(s[j])) || s[j] == 'x' || (s[j] >= 'a' && s[j] <= 'f') || (s[j] >= 'A' && s[j] <= 'F')) {
				j++
			}
			out = append(out, tok{"num", s[i:j]})
			i = j
			continue
		}
		for _, op := range []string{"<==>", "==>", "&&", "||", "==", "!=", "<=", ">=", "..", "&^"} {
			if strings.HasPrefix(s[i:], op) {
				out = append(out, tok{"op", op})
				i += len(op)
				goto next
			}
		}
		if strings.ContainsRune("+-*/%<>!()[],.:=&|^~?@{}", rune(c)) {
			out = append(out, tok{"op", string(c)})
			i++
			continue
		}
		return nil, fmt.Errorf("bad character %q in %q", c, s)
	next:
	}
	out = append(out, tok{"eof", ""})
	return out, nil
}

// ---------------------------------------------------------------- parser

type parser struct {
	toks []tok
	p    int
	src  string
}

func (p *parser) peek() tok { return p.toks[p.p] }
func (p *parser) next() tok { t := p.toks[p.p]; p.p++; return t }
func (p *parser) isOp(s string) bool {
	t := p.peek()
	return t.k == "op" && t.s == s
}
func (p *parser) isId(s string) bool {
	t := p.peek()
	return t.k == "id" && t.s == s
}
func (p *parser) expect(s string) {
	t := p.next()
	if t.s != s {
		panic(fmt.Sprintf("expected %q, got %q in: %s", s, t.s, p.src))
	}
}

func parseExpr(src string) (e Expr, err error) {
	defer func() {
		if r := recover(); r != nil {
			err = fmt.Errorf("%v", r)
		}
	}()
	toks, err := lex(src)
	if err != nil {
		return nil, err
	}
	p := &parser{toks: toks, src: src}
	e = p.expr()
	if p.peek().k != "eof" {
		panic(fmt.Sprintf("trailing input %q in: %s", p.peek().s, src))
	}
	return e, nil
}

// precedence (low to high): <==>, ==>, ||, &&, comparison, | ^, &, + -, * , unary
func (p *parser) expr() Expr {
	if p.isId("let") {
		p.next()
		name := p.next().s
		p.expect("=")
		v := p.expr()
		if !p.isId("in") {
			panic("expected 'in' in let: " + p.src)
		}
		p.next()
		body := p.expr()
		return &ELet{name, v, body}
	}
	if p.isId("forall") {
		p.next()
		name := p.next().s
		if !p.isId("in") {
			panic("expected 'in' in forall: " + p.src)
		}
		p.next()
		lo := p.addExpr()
		p.expect("..")
		hi := p.addExpr()
		p.expect(":")
		body := p.expr()
		return &EForall{name, lo, hi, body}
	}
	return p.iffExpr()
}

func (p *parser) iffExpr() Expr {
	x := p.impExpr()
	for p.isOp("<==>") {
		p.next()
		y := p.impExpr()
		x = &EBin{"<==>", x, y}
	}
	return x
}

func (p *parser) impExpr() Expr {
	x := p.orExpr()
	if p.isOp("==>") {
		p.next()
		y := p.impRHS()
		return &EBin{"==>", x, y}
	}
	return x
}

func (p *parser) impRHS() Expr {
	if p.isId("let") || p.isId("forall") {
		return p.expr()
	}
	return p.impExpr()
}

func (p *parser) orExpr() Expr {
	x := p.andExpr()
	for p.isOp("||") {
		p.next()
		y := p.andExpr()
		x = &EBin{"||", x, y}
	}
	return x
}

func (p *parser) andExpr() Expr {
	x := p.cmpExpr()
	for p.isOp("&&") {
		p.next()
		y := p.cmpExpr()
		x = &EBin{"&&", x, y}
	}
	return x
}

func (p *parser) cmpExpr() Expr {
	x := p.bitOrExpr()
	for {
		t := p.peek()
		if t.k == "op" && (t.s == "==" || t.s == "!=" || t.s == "<" || t.s == "<=" || t.s == ">" || t.s == ">=") {
			p.next()
			y := p.bitOrExpr()
			x = &EBin{t.s, x, y}
			continue
		}
		return x
	}
}

func (p *parser) bitOrExpr() Expr {
	x := p.bitAndExpr()
	for p.isOp("|") || p.isOp("^") {
		op := p.next().s
		y := p.bitAndExpr()
		x = &EBin{op, x, y}
	}
	return x
}

func (p *parser) bitAndExpr() Expr {
	x := p.addExpr()
	for p.isOp("&") || p.isOp("&^") {
		op := p.next().s
		y := p.addExpr()
		x = &EBin{op, x, y}
	}
	return x
}

func (p *parser) addExpr() Expr {
	x := p.mulExpr()
	for p.isOp("+") || p.isOp("-") {
		op := p.next().s
		y := p.mulExpr()
		x = &EBin{op, x, y}
	}
	return x
}

func (p *parser) mulExpr() Expr {
	x := p.unary()
	for p.isOp("*") {
		p.next()
		y := p.unary()
		x = &EBin{"*", x, y}
	}
	return x
}

func (p *parser) unary() Expr {
	if p.isOp("!") {
		p.next()
		return &EUn{"!", p.unary()}
	}
	if p.isOp("-") {
		p.next()
		return &EUn{"-", p.unary()}
	}
	if p.isOp("~") {
		p.next()
		return &EUn{"~", p.unary()}
	}
	if p.isOp("*") {
		p.next()
		return &EUn{"*", p.unary()}
	}
	return p.postfix()
}

func (p *parser) postfix() Expr {
	x := p.primary()
	for {
		if p.isOp(".") {
			p.next()
			name := p.next().s
			x = &EField{x, name}
			continue
		}
		if p.isOp("[") {
			p.next()
			i := p.expr()
			p.expect("]")
			x = &EIndex{x, i}
			continue
		}
		return x
	}
}

func (p *parser) primary() Expr {
	t := p.next()
	switch t.k {
	case "num":
		return &ELit{t.s}
	case "str":
		return &EStr{t.s}
	case "id":
		switch t.s {
		case "true":
			return &EBool{true}
		case "false":
			return &EBool{false}
		case "nil":
			return &ENil{}
		case "old":
			p.expect("(")
			e := p.expr()
			p.expect(")")
			return &EOld{e}
		}
		if p.isOp("(") {
			p.next()
			var args []Expr
			for !p.isOp(")") {
				args = append(args, p.expr())
				if p.isOp(",") {
					p.next()
				}
			}
			p.expect(")")
			return &ECall{t.s, args}
		}
		return &EIdent{t.s}
	case "op":
		if t.s == "(" {
			e := p.expr()
			p.expect(")")
			return e
		}
	}
	panic(fmt.Sprintf("unexpected token %q in: %s", t.s, p.src))
}

// ---------------------------------------------------------------- file

var clauseKW = map[string]bool{
	"func": true, "requires": true, "ensures": true, "assigns": true, "nilable": true, "fresh": true,
	"trusted": true, "layer": true, "loop": true, "props": true, "define": true, "lemma": true,
	"global": true, "outs": true, "operands": true, "defines": true, "hint": true, "pure": true,
	"allocates": true, "sample": true, "reads": true, "posthint": true, "import": true, "unreachable": true, "exported": true, "axiom": true, "local": true, "reveal": true, "assert": true, "using": true, "delegates": true, "bridge-also": true, "ghost": true, "forwards": true, "always": true,
}

var tagRe = regexp.MustCompile(`^\{([A-Za-z0-9_,\- ]*)\}\s*`)
var nameRe = regexp.MustCompile(`^\[([A-Za-z0-9_\-./]+)\]\s*`)

func splitTags(rest string) (tags []string, name string, r string) {
	r = rest
	for {
		if m := tagRe.FindStringSubmatch(r); m != nil {
			for _, t := range strings.Split(m[1], ",") {
				t = strings.TrimSpace(t)
				if t != "" {
					tags = append(tags, t)
				}
			}
			r = r[len(m[0]):]
			continue
		}
		if m := nameRe.FindStringSubmatch(r); m != nil {
			name = m[1]
			r = r[len(m[0]):]
			continue
		}
		return
	}
}

func parseParams(s string) []MacroParam {
	var out []MacroParam
	for _, part := range strings.Split(s, ",") {
		part = strings.TrimSpace(part)
		if part == "" {
			continue
		}
		kv := strings.SplitN(part, ":", 2)
		if len(kv) != 2 {
			panic("bad param " + part)
		}
		out = append(out, MacroParam{strings.TrimSpace(kv[0]), strings.TrimSpace(kv[1])})
	}
	return out
}

// ParseSpecFile reads the //@ lines of a Go file.
func ParseSpecFile(path string) (*Spec, error) {
	data, err := os.ReadFile(path)
	if err != nil {
		return nil, err
	}
	sp := &Spec{Funcs: map[string]*FuncContract{}, Macros: map[string]*Macro{}}
	// gather logical lines: a line whose first word is a keyword starts a new clause
	type lline struct {
		text string
		no   int
	}
	var lines []lline
	for i, raw := range strings.Split(string(data), "\n") {
		t := strings.TrimSpace(raw)
		if !strings.HasPrefix(t, "//@") {
			continue
		}
		t = strings.TrimSpace(t[3:])
		if t == "" || strings.HasPrefix(t, "--") {
			continue
		}
		if i := strings.Index(t, " -- "); i >= 0 {
			t = strings.TrimSpace(t[:i])
		}
		first := t
		if j := strings.IndexAny(t, " \t"); j >= 0 {
			first = t[:j]
		}
		if clauseKW[first] || len(lines) == 0 {
			lines = append(lines, lline{t, i + 1})
		} else {
			lines[len(lines)-1].text += " " + t
		}
	}
	var cur *FuncContract
	mustExpr := func(s string, no int) Expr {
		e, err := parseExpr(s)
		if err != nil {
			panic(fmt.Sprintf("line %d: %v", no, err))
		}
		return e
	}
	var perr error
	func() {
		defer func() {
			if r := recover(); r != nil {
				perr = fmt.Errorf("%s: %v", path, r)
			}
		}()
		for _, l := range lines {
			kw, rest := l.text, ""
			if j := strings.IndexAny(l.text, " \t"); j >= 0 {
				kw, rest = l.text[:j], strings.TrimSpace(l.text[j+1:])
			}
			switch kw {
			case "func":
				name := rest
				cur = &FuncContract{Name: name, Nilable: map[string]bool{}, Invs: map[int][]*Clause{}, Decr: map[int]*Clause{}, Line: l.no}
				if _, dup := sp.Funcs[name]; dup {
					panic(fmt.Sprintf("line %d: duplicate contract for %s", l.no, name))
				}
				sp.Funcs[name] = cur
				sp.Order = append(sp.Order, name)
			case "props":
				for _, t := range strings.FieldsFunc(rest, func(r rune) bool { return r == ',' || r == ' ' }) {
					cur.Props = append(cur.Props, t)
				}
			case "requires", "ensures", "hint":
				tags, name, r := splitTags(rest)
				c := &Clause{Kind: kw, Tags: tags, Name: name, E: mustExpr(r, l.no), Src: r}
				switch kw {
				case "requires":
					cur.Requires = append(cur.Requires, c)
				case "ensures":
					cur.Ensures = append(cur.Ensures, c)
				case "hint":
					cur.Hints = append(cur.Hints, c)
				}
			case "assigns":
				cur.HasAssigns = true
				if rest != "nothing" {
					for _, part := range splitTop(rest) {
						cur.Assigns = append(cur.Assigns, mustExpr(part, l.no))
					}
				}
			case "defines":
				for _, part := range splitTop(rest) {
					cur.Defines = append(cur.Defines, mustExpr(part, l.no))
				}
			case "pure":
				cur.HasAssigns = true
			case "ghost":
				for _, t := range strings.Split(rest, ",") {
					nt := strings.SplitN(t, ":", 2)
					if len(nt) != 2 {
						panic(fmt.Sprintf("line %d: ghost NAME: TYPE", l.no))
					}
					cur.Ghosts = append(cur.Ghosts, MacroParam{Name: strings.TrimSpace(nt[0]), Type: strings.TrimSpace(nt[1])})
				}
			case "nilable":
				for _, t := range strings.FieldsFunc(rest, func(r rune) bool { return r == ',' || r == ' ' }) {
					cur.Nilable[t] = true
				}
			case "import":
				// import WRAPPER: label, label: at calls of WRAPPER (a function with a delegates clause) the named
				// ensures of the operation it delegates to are assumed for the case that no error was pending
				k := strings.LastIndex(rest, ":")
				if k < 0 {
					panic(fmt.Sprintf("line %d: import needs WRAPPER: labels", l.no))
				}
				if cur.Imports == nil {
					cur.Imports = map[string][]string{}
				}
				cur.Imports[strings.TrimSpace(rest[:k])] = strings.FieldsFunc(rest[k+1:], func(r rune) bool { return r == ',' || r == ' ' })
			case "unreachable":
				// unreachable retK: WHY - the K-th return is dead code (no cover obligation is generated for it)
				var k int
				var why string
				if n, _ := fmt.Sscanf(rest, "ret%d", &k); n != 1 {
					panic(fmt.Sprintf("line %d: unreachable needs retK", l.no))
				}
				if i := strings.Index(rest, ":"); i >= 0 {
					why = strings.TrimSpace(rest[i+1:])
				}
				if cur.DeadRets == nil {
					cur.DeadRets = map[int]string{}
				}
				cur.DeadRets[k] = why
			case "posthint":
				// a lemma instantiated at every return, in the return's environment (post state, ret values)
				cur.PostHints = append(cur.PostHints, &Clause{Kind: "posthint", E: mustExpr(rest, l.no), Src: rest})
			case "reads":
				// reads p.F, p.G: of the operand *p only the listed fields are read; the others are poison
				// at entry (class D) and need not be defined at call sites
				for _, part := range splitTop(rest) {
					cur.Reads = append(cur.Reads, mustExpr(part, l.no))
				}
			case "outs":
				// outs d[, e] [when COND]: the old contents of *d are never read (unless d is also an operand) and
				// every field of *d is written before each return (on which COND holds)
				names := rest
				if i := strings.Index(rest, " when "); i >= 0 {
					names = rest[:i]
					w := rest[i+6:]
					cur.OutsWhen = &Clause{Kind: "outs-when", E: mustExpr(w, l.no), Src: w}
				}
				for _, n := range strings.FieldsFunc(names, func(r rune) bool { return r == ',' || r == ' ' }) {
					if strings.Contains(n, ".") {
						// a single field: written on every return (on which COND holds); says nothing about reads
						cur.OutFields = append(cur.OutFields, mustExpr(n, l.no))
					} else {
						cur.Outs = append(cur.Outs, n)
					}
				}
			case "operands":
				cur.Operands = strings.FieldsFunc(rest, func(r rune) bool { return r == ',' || r == ' ' })
			case "local":
				// local NAME assume EXPR because WHY
				f := strings.SplitN(rest, " ", 3)
				if len(f) < 3 || f[1] != "assume" {
					panic(fmt.Sprintf("line %d: bad local clause", l.no))
				}
				ex, why := f[2], ""
				if i := strings.Index(ex, " because "); i >= 0 {
					ex, why = ex[:i], ex[i+9:]
				}
				if cur.LocalAssume == nil {
					cur.LocalAssume = map[string]*Clause{}
				}
				cur.LocalAssume[f[0]] = &Clause{Kind: "local-assume", E: mustExpr(ex, l.no), Src: ex, Name: why}
			case "forwards":
				cur.Forwards = strings.TrimSpace(rest)
			case "always":
				cur.Always = append(cur.Always, strings.TrimSpace(rest))
			case "bridge-also":
				for _, t := range strings.Split(rest, ",") {
					if t = strings.TrimSpace(t); t != "" {
						cur.BridgeAlso = append(cur.BridgeAlso, t)
					}
				}
			case "sample":
				// restricts the inputs of the run-time check / witness search only (never used by a proof)
				cur.Sample = append(cur.Sample, &Clause{Kind: "sample", E: mustExpr(rest, l.no), Src: rest})
			case "fresh":
				cur.Fresh = true
			case "allocates":
				cur.Allocates = true
			case "exported":
				cur.Exported = true
			case "trusted":
				cur.Trusted = true
				cur.TrustWhy = rest
			case "layer":
				cur.Layer1 = rest == "bigint" || rest == "1"
			case "loop":
				f := strings.SplitN(rest, " ", 3)
				if len(f) < 3 {
					panic(fmt.Sprintf("line %d: bad loop clause", l.no))
				}
				n, err := strconv.Atoi(f[0])
				if err != nil {
					panic(fmt.Sprintf("line %d: bad loop ordinal", l.no))
				}
				tags, name, r := splitTags(f[2])
				letName := ""
				if f[1] == "let" {
					if i := strings.Index(r, "="); i > 0 {
						letName = strings.TrimSpace(r[:i])
						r = strings.TrimSpace(r[i+1:])
					}
				}
				var when Expr
				if f[1] == "decreases" || f[1] == "backassert" {
					// decreases M when COND: termination is claimed for calls whose entry state satisfies COND
					if i := strings.Index(r, " when "); i >= 0 {
						when = mustExpr(r[i+6:], l.no)
						r = r[:i]
					}
				}
				c := &Clause{Kind: f[1], Tags: tags, Name: name, E: mustExpr(r, l.no), Src: r, Loop: n, When: when}
				if letName != "" {
					c.Name = letName
				}
				switch f[1] {
				case "invariant":
					cur.Invs[n] = append(cur.Invs[n], c)
				case "decreases":
					cur.Decr[n] = c
				case "errexit":
					if cur.ErrExit == nil {
						cur.ErrExit = map[int]*Clause{}
					}
					cur.ErrExit[n] = c
				case "let":
					// loop k let NAME = EXPR: a ghost constant holding the value of EXPR at the loop head of the current iteration
					if cur.LoopLets == nil {
						cur.LoopLets = map[int][]*Clause{}
					}
					cur.LoopLets[n] = append(cur.LoopLets[n], c)
				case "backassert":
					// a fact proved at the end of the body and then available to the back-edge obligations (proof step)
					if cur.BackAsserts == nil {
						cur.BackAsserts = map[int][]*Clause{}
					}
					cur.BackAsserts[n] = append(cur.BackAsserts[n], c)
				case "backhint":
					// a lemma application instantiated at the end of the body (may use the loop's let constants)
					if cur.BackHints == nil {
						cur.BackHints = map[int][]*Clause{}
					}
					cur.BackHints[n] = append(cur.BackHints[n], c)
				case "hint":
					if cur.LoopHints == nil {
						cur.LoopHints = map[int][]*Clause{}
					}
					cur.LoopHints[n] = append(cur.LoopHints[n], c)
				default:
					panic(fmt.Sprintf("line %d: bad loop clause kind %s", l.no, f[1]))
				}
			case "assert":
				// assert before CALLEE#N: EXPR
				if !strings.HasPrefix(rest, "before ") {
					panic(fmt.Sprintf("line %d: assert needs 'before <callee>#<n>:'", l.no))
				}
				r := strings.TrimSpace(rest[7:])
				k := strings.Index(r, ": ")
				if k < 0 {
					panic(fmt.Sprintf("line %d: assert needs ':'", l.no))
				}
				site := strings.TrimSpace(r[:k])
				tags, name, ex := splitTags(strings.TrimSpace(r[k+2:]))
				if cur.Asserts == nil {
					cur.Asserts = map[string][]*Clause{}
				}
				cur.Asserts[site] = append(cur.Asserts[site], &Clause{Kind: "assert", Tags: tags, Name: name, E: mustExpr(ex, l.no), Src: ex})
			case "delegates":
				i := strings.LastIndex(rest, "(")
				// callee names contain parentheses themselves: the argument list is the last parenthesised group
				j := matchParen(rest, i)
				cur.Delegate = strings.TrimSpace(rest[:i])
				for _, part := range splitTop(rest[i+1 : j]) {
					cur.DelegateArgs = append(cur.DelegateArgs, mustExpr(part, l.no))
				}
			case "reveal":
				if cur.Reveal == nil {
					cur.Reveal = map[string]bool{}
				}
				for _, t := range strings.FieldsFunc(rest, func(r rune) bool { return r == ',' || r == ' ' }) {
					cur.Reveal[t] = true
				}
			case "define":
				// define [opaque] name(p: T, ...): T = expr
				opaque := false
				l1only := false
				if strings.HasPrefix(rest, "opaque ") {
					opaque = true
					rest = strings.TrimSpace(rest[7:])
				}
				if strings.HasPrefix(rest, "l1 ") {
					l1only = true
					rest = strings.TrimSpace(rest[3:])
				}
				i := strings.Index(rest, "(")
				name := strings.TrimSpace(rest[:i])
				j := matchParen(rest, i)
				params := parseParams(rest[i+1 : j])
				tail := strings.TrimSpace(rest[j+1:])
				if !strings.HasPrefix(tail, ":") {
					panic(fmt.Sprintf("line %d: define needs a return type", l.no))
				}
				k := strings.Index(tail, "=")
				ret := strings.TrimSpace(tail[1:k])
				body := mustExpr(tail[k+1:], l.no)
				sp.Macros[name] = &Macro{Name: name, Params: params, Ret: ret, Body: body, Opaque: opaque, L1Only: l1only}
			case "lemma", "axiom":
				// lemma {tags} name(p: T, ...): expr
				tags, _, r := splitTags(rest)
				i := strings.Index(r, "(")
				name := strings.TrimSpace(r[:i])
				j := matchParen(r, i)
				params := parseParams(r[i+1 : j])
				tail := strings.TrimSpace(r[j+1:])
				if !strings.HasPrefix(tail, ":") {
					panic(fmt.Sprintf("line %d: lemma needs ':'", l.no))
				}
				body := mustExpr(tail[1:], l.no)
				sp.Lemmas = append(sp.Lemmas, &Lemma{Name: name, Params: params, Body: body, Tags: tags, Assumed: kw == "axiom", Src: tail[1:]})
			case "using":
				if len(sp.Lemmas) == 0 {
					panic(fmt.Sprintf("line %d: using without lemma", l.no))
				}
				lm := sp.Lemmas[len(sp.Lemmas)-1]
				lm.Using = append(lm.Using, mustExpr(rest, l.no))
			case "global":
				// global NAME: expr      or   global NAME[i]: expr
				k := strings.Index(rest, ":")
				head := strings.TrimSpace(rest[:k])
				g := &GlobalInv{Src: rest}
				if i := strings.Index(head, "["); i >= 0 {
					g.Global = head[:i]
					g.Var = strings.TrimSuffix(head[i+1:], "]")
				} else {
					g.Global = head
				}
				g.E = mustExpr(rest[k+1:], l.no)
				sp.Globals = append(sp.Globals, g)
			default:
				panic(fmt.Sprintf("line %d: unknown keyword %q", l.no, kw))
			}
		}
	}()
	return sp, perr
}

func matchParen(s string, i int) int {
	d := 0
	for j := i; j < len(s); j++ {
		switch s[j] {
		case '(':
			d++
		case ')':
			d--
			if d == 0 {
				return j
			}
		}
	}
	panic("unbalanced parens in " + s)
}

func splitTop(s string) []string {
	var out []string
	d := 0
	last := 0
	for i, c := range s {
		switch c {
		case '(', '[':
			d++
		case ')', ']':
			d--
		case ',':
			if d == 0 {
				out = append(out, strings.TrimSpace(s[last:i]))
				last = i + 1
			}
		}
	}
	if strings.TrimSpace(s[last:]) != "" {
		out = append(out, strings.TrimSpace(s[last:]))
	}
	return out
}
