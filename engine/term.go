package main

import (
	"fmt"
	"math/big"
	"strings"
)

// Sort of an SMT term.
type Sort int

const (
	SInt Sort = iota
	SBool
	SBV // (_ BitVec 32), used for Condition
)

func (s Sort) SMT() string {
	switch s {
	case SInt:
		return "Int"
	case SBool:
		return "Bool"
	case SBV:
		return "(_ BitVec 32)"
	}
	return "?"
}

func (s Sort) ArraySMT() string { return "(Array Int " + s.SMT() + ")" }

// Term is an SMT-LIB term (as text) with its sort.
type Term struct {
	S    string
	Sort Sort
}

func (t Term) String() string { return t.S }

var (
	TTrue  = Term{"true", SBool}
	TFalse = Term{"false", SBool}
)

func IntLit(n int64) Term {
	if n < 0 {
		return Term{fmt.Sprintf("(- %d)", -n), SInt}
	}
	return Term{fmt.Sprintf("%d", n), SInt}
}

func BigLit(n *big.Int) Term {
	if n.Sign() < 0 {
		return Term{"(- " + new(big.Int).Neg(n).String() + ")", SInt}
	}
	return Term{n.String(), SInt}
}

func BVLit(n uint32) Term { return Term{fmt.Sprintf("#x%08x", n), SBV} }

func BoolLit(b bool) Term {
	if b {
		return TTrue
	}
	return TFalse
}

func app(sort Sort, op string, args ...Term) Term {
	var sb strings.Builder
	sb.WriteString("(")
	sb.WriteString(op)
	for _, a := range args {
		sb.WriteString(" ")
		sb.WriteString(a.S)
	}
	sb.WriteString(")")
	return Term{sb.String(), sort}
}

func And(ts ...Term) Term {
	var xs []Term
	for _, t := range ts {
		if t.S == "true" {
			continue
		}
		if t.S == "false" {
			return TFalse
		}
		xs = append(xs, t)
	}
	if len(xs) == 0 {
		return TTrue
	}
	if len(xs) == 1 {
		return xs[0]
	}
	return app(SBool, "and", xs...)
}

func Or(ts ...Term) Term {
	var xs []Term
	for _, t := range ts {
		if t.S == "false" {
			continue
		}
		if t.S == "true" {
			return TTrue
		}
		xs = append(xs, t)
	}
	if len(xs) == 0 {
		return TFalse
	}
	if len(xs) == 1 {
		return xs[0]
	}
	return app(SBool, "or", xs...)
}

func Not(t Term) Term {
	if t.S == "true" {
		return TFalse
	}
	if t.S == "false" {
		return TTrue
	}
	return app(SBool, "not", t)
}

func Implies(a, b Term) Term {
	if a.S == "true" {
		return b
	}
	if a.S == "false" || b.S == "true" {
		return TTrue
	}
	return app(SBool, "=>", a, b)
}

func Eq(a, b Term) Term {
	if a.S == b.S {
		return TTrue
	}
	return app(SBool, "=", a, b)
}
func Ne(a, b Term) Term { return Not(Eq(a, b)) }

func Ite(c, a, b Term) Term {
	if c.S == "true" {
		return a
	}
	if c.S == "false" {
		return b
	}
	if a.S == b.S {
		return a
	}
	return app(a.Sort, "ite", c, a, b)
}

func Add(a, b Term) Term {
	if b.S == "0" {
		return a
	}
	if a.S == "0" {
		return b
	}
	return app(SInt, "+", a, b)
}
func Sub(a, b Term) Term {
	if b.S == "0" {
		return a
	}
	return app(SInt, "-", a, b)
}
func Mul(a, b Term) Term {
	if a.S == "1" {
		return b
	}
	if b.S == "1" {
		return a
	}
	return app(SInt, "*", a, b)
}
func Neg(a Term) Term   { return app(SInt, "-", a) }
func Lt(a, b Term) Term { return app(SBool, "<", a, b) }
func Le(a, b Term) Term { return app(SBool, "<=", a, b) }
func Gt(a, b Term) Term { return app(SBool, ">", a, b) }
func Ge(a, b Term) Term { return app(SBool, ">=", a, b) }

func Select(arr, idx Term, elem Sort) Term { return app(elem, "select", arr, idx) }
func Store(arr, idx, v Term) Term {
	return Term{"(store " + arr.S + " " + idx.S + " " + v.S + ")", arr.Sort}
}

// Division. Literal divisors use SMT's native (linear) div/mod; symbolic divisors use the
// uninterpreted pair edq/edr (Euclidean quotient and remainder) whose defining
// property is instantiated per occurrence (solve.go), so that the solver sees
// a = q*b + r, 0 <= r < |b| instead of a non-linear div term.
func isLitTerm(t Term) bool {
	s := t.S
	if strings.HasPrefix(s, "(- ") && strings.HasSuffix(s, ")") {
		s = s[3 : len(s)-1]
	}
	if s == "" {
		return false
	}
	for _, c := range s {
		if c < '0' || c > '9' {
			return false
		}
	}
	return true
}

func EDiv(a, b Term) Term {
	if isLitTerm(b) {
		return app(SInt, "div", a, b)
	}
	return app(SInt, "edq", a, b)
}
func EMod(a, b Term) Term {
	if isLitTerm(b) {
		return app(SInt, "mod", a, b)
	}
	return app(SInt, "edr", a, b)
}
func TDiv(a, b Term) Term {
	if isLitTerm(b) {
		return app(SInt, "tdiv", a, b)
	}
	q, r := EDiv(a, b), EMod(a, b)
	return Ite(Or(Ge(a, IntLit(0)), Eq(r, IntLit(0))), q, Ite(Gt(b, IntLit(0)), Add(q, IntLit(1)), Sub(q, IntLit(1))))
}
func TMod(a, b Term) Term {
	if isLitTerm(b) {
		return app(SInt, "tmod", a, b)
	}
	r := EMod(a, b)
	return Ite(Or(Ge(a, IntLit(0)), Eq(r, IntLit(0))), r, Ite(Gt(b, IntLit(0)), Sub(r, b), Add(r, b)))
}

// wrap into the range of an integer type with the given bit width / signedness.
func Wrap(t Term, bits int, signed bool) Term {
	name := fmt.Sprintf("wrap_%s%d", map[bool]string{true: "s", false: "u"}[signed], bits)
	return app(SInt, name, t)
}

var pow2_64 = new(big.Int).Lsh(big.NewInt(1), 64)

func pow2big(n int) *big.Int { return new(big.Int).Lsh(big.NewInt(1), uint(n)) }

// Prelude: helper function definitions shared by every query.
func smtPrelude() string {
	var sb strings.Builder
	sb.WriteString("(define-fun tdiv ((a Int) (b Int)) Int (ite (>= a 0) (ite (> b 0) (div a b) (- (div a (- b)))) (ite (> b 0) (- (div (- a) b)) (div (- a) (- b)))))\n")
	sb.WriteString("(define-fun tmod ((a Int) (b Int)) Int (- a (* b (tdiv a b))))\n")
	sb.WriteString("(define-fun absi ((a Int)) Int (ite (>= a 0) a (- a)))\n")
	sb.WriteString("(define-fun mini ((a Int) (b Int)) Int (ite (<= a b) a b))\n")
	sb.WriteString("(define-fun maxi ((a Int) (b Int)) Int (ite (>= a b) a b))\n")
	sb.WriteString("(define-fun sgni ((a Int)) Int (ite (> a 0) 1 (ite (< a 0) (- 1) 0)))\n")
	for _, w := range []int{8, 16, 32, 64} {
		m := pow2big(w)
		h := pow2big(w - 1)
		fmt.Fprintf(&sb, "(define-fun wrap_u%d ((a Int)) Int (ite (and (<= 0 a) (< a %s)) a (mod a %s)))\n", w, m, m)
		fmt.Fprintf(&sb, "(define-fun wrap_s%d ((a Int)) Int (ite (and (<= (- %s) a) (< a %s)) a (- (mod (+ a %s) %s) %s)))\n", w, h, h, h, m, h)
	}
	sb.WriteString("(declare-fun edq (Int Int) Int)\n")
	sb.WriteString("(declare-fun edr (Int Int) Int)\n")
	sb.WriteString("(declare-fun pow10 (Int) Int)\n")
	sb.WriteString("(declare-fun nd10 (Int) Int)\n")
	sb.WriteString("(declare-fun pow2 (Int) Int)\n")
	sb.WriteString("(declare-fun bitlen (Int) Int)\n")
	return sb.String()
}
