package main

import (
	"fmt"
	"go/constant"
	"go/token"
	"go/types"

	"golang.org/x/tools/go/ssa"
)

func (vc *FuncVC) execBlock(b *ssa.BasicBlock) {
	vc.curBlock = b
	st := vc.out[b]
	reach := vc.reach[b]
	for _, ins := range b.Instrs {
		if ins.Pos().IsValid() {
			vc.curPos = ins.Pos()
		}
		switch ins := ins.(type) {
		case *ssa.Phi:
			// handled on block entry
		case *ssa.DebugRef:
			if !ins.IsAddr && ins.Object() != nil {
				if v, ok := vc.vals[ins.X]; ok && (v.Kind == vScalar || v.Kind == vSlice) {
					vc.bind(ins.Object().Name(), b, vc.toSVal(v, ins.X.Type()))
				} else if c, ok := ins.X.(*ssa.Const); ok {
					cv := vc.constVal(c)
					if cv.Kind == vScalar {
						vc.bind(ins.Object().Name(), b, vc.toSVal(cv, ins.X.Type()))
					}
				}
			}
			if la := vc.fc.LocalAssume; la != nil && !ins.IsAddr && ins.Object() != nil {
				if cl := la[ins.Object().Name()]; cl != nil && !vc.localDone[ins.Object().Name()] {
					if v, ok := vc.vals[ins.X]; ok && v.Kind == vScalar {
						vc.localDone[ins.Object().Name()] = true
						env := vc.env(st, map[string]SVal{ins.Object().Name(): vc.toSVal(v, ins.X.Type())})
						vc.assume(Implies(reach, env.boolean(cl.E)))
					}
				}
			}
		case *ssa.Alloc:
			vc.execAlloc(st, ins)
		case *ssa.FieldAddr:
			vc.execFieldAddr(st, reach, ins)
		case *ssa.IndexAddr:
			vc.execIndexAddr(st, reach, ins)
		case *ssa.UnOp:
			vc.execUnOp(st, reach, ins)
		case *ssa.BinOp:
			vc.execBinOp(st, reach, ins)
		case *ssa.Store:
			vc.execStore(st, reach, ins)
		case *ssa.Convert:
			v := vc.convert(vc.val(ins.X), ins.X.Type(), ins.Type())
			// []byte(s) has strlen(s) bytes; string(b) for a byte slice b has len(b) bytes
			if isString(ins.X.Type()) && v.Kind == vSlice && len(v.Elems) >= 2 {
				if b, isB := ins.Type().Underlying().(*types.Slice).Elem().Underlying().(*types.Basic); isB && b.Kind() == types.Uint8 {
					// a new array holding the bytes of the string
					src := vc.scalar(ins.X)
					n := vc.strLen(src)
					ptr := st.cnt
					st.cnt = vc.define("cnt", Add(st.cnt, Add(n, IntLit(1))))
					na := vc.havocRegion(st, cellKey(ins.Type().Underlying().(*types.Slice).Elem()), SInt, ptr, Add(ptr, n), TTrue, "strbytes")
					vc.nfresh++
					q := Term{fmt.Sprintf("sb_%d", vc.nfresh), SInt}
					body := Implies(And(Le(ptr, q), Lt(q, Add(ptr, n))), Eq(Select(na, q, SInt), vc.strByte(src, Sub(q, ptr))))
					vc.assume(Term{fmt.Sprintf("(forall ((%s Int)) (! %s :pattern (%s)))", q.S, body.S, Select(na, q, SInt).S), SBool})
					v = &Val{Kind: vSlice, Elems: []*Val{{T: ptr}, {T: n}, {T: n}}, GoType: ins.Type()}
				}
			}
			if isString(ins.Type()) {
				if xv := vc.val(ins.X); xv.Kind == vSlice && len(xv.Elems) >= 2 {
					if sl, isS := ins.X.Type().Underlying().(*types.Slice); isS {
						if b, isB := sl.Elem().Underlying().(*types.Basic); isB && b.Kind() == types.Uint8 {
							vc.assume(Eq(vc.strLen(v.T), xv.Elems[1].T))
							harr, base := vc.arr(st, cellKey(sl.Elem()), SInt), xv.Elems[0].T
							vc.assume(vc.strSegFact(v.T, IntLit(0), xv.Elems[1].T, func(t Term) Term { return Select(harr, Add(base, t), SInt) }))
						}
					}
				}
			}
			vc.vals[ins] = v
		case *ssa.ChangeType:
			v := *vc.val(ins.X)
			v.GoType = ins.Type()
			vc.vals[ins] = &v
		case *ssa.ChangeInterface:
			vc.vals[ins] = vc.val(ins.X)
		case *ssa.MakeInterface:
			if _, basic := ins.X.Type().Underlying().(*types.Basic); !basic {
				vc.bigWrites++ // a pointer or aggregate escapes into an interface
			}
			c := vc.fresh("iface", SInt)
			vc.assume(Ne(c, IntLit(0)))
			if tag := ifaceTag(ins.X.Type()); tag != 0 {
				vc.ifaceDecls()
				vc.assume(Eq(app(SInt, "uf_iftype", c), IntLit(tag)))
			}
			if isString(ins.X.Type()) {
				// the string an interface value holds (istr(x) in contracts)
				vc.ifaceDecls()
				vc.assume(Eq(app(SInt, "uf_ifstr", c), vc.scalar(ins.X)))
			}
			vc.vals[ins] = &Val{T: c, GoType: ins.Type()}
		case *ssa.Extract:
			t := vc.val(ins.Tuple)
			if t.Kind != vTuple || ins.Index >= len(t.Elems) {
				vc.unsupported("extract from non-tuple")
				vc.vals[ins] = vc.freshVal("extract", ins.Type())
			} else {
				vc.vals[ins] = t.Elems[ins.Index]
			}
		case *ssa.Slice:
			vc.execSlice(st, reach, ins)
		case *ssa.Field:
			vc.execField(ins)
		case *ssa.Index:
			vc.execIndex(reach, ins)
		case *ssa.Call:
			vc.execCall(st, reach, ins)
		case *ssa.Return:
			vc.execReturn(st, reach, ins)
		case *ssa.Panic:
			vc.oblige("S", fmt.Sprintf("panic#%d", vc.ord("panic")), reach, TFalse, vc.propTags("C04"), ins.Pos(), "explicit panic unreachable")
		case *ssa.If:
			c := vc.scalar(ins.Cond)
			vc.edges[[2]int{b.Index, b.Succs[0].Index}] = vc.define(fmt.Sprintf("e_%d_%d", b.Index, b.Succs[0].Index), And(reach, c))
			vc.edges[[2]int{b.Index, b.Succs[1].Index}] = vc.define(fmt.Sprintf("e_%d_%d", b.Index, b.Succs[1].Index), And(reach, Not(c)))
		case *ssa.Jump:
			vc.edges[[2]int{b.Index, b.Succs[0].Index}] = reach
		case *ssa.MakeSlice:
			ln := vc.scalar(ins.Len)
			sl := ins.Type().Underlying().(*types.Slice)
			es := vc.L.sizeOf(sl.Elem())
			p := st.cnt
			st.cnt = vc.define("cnt", Add(st.cnt, Add(Mul(IntLit(es), vc.scalar(ins.Cap)), IntLit(1))))
			vc.vals[ins] = &Val{Kind: vSlice, Elems: []*Val{{T: p}, {T: ln}, {T: vc.scalar(ins.Cap)}}, GoType: ins.Type()}
			vc.note("make([]T) contents not zero-initialised in the model at %s", vc.pos(ins.Pos()))
		case *ssa.TypeAssert:
			// dynamic types are not modelled. v, ok := x.(T): any value of T and any ok (an over-approximation of both
			// outcomes). x.(T) without ok panics on a mismatch, which cannot be excluded: an obligation that only an
			// unreachable assertion discharges.
			if !ins.CommaOk {
				vc.oblige("S", fmt.Sprintf("type-assert#%d", vc.ord("type-assert")), reach, TFalse, vc.propTags("C04"), ins.Pos(), "x.(T) without comma-ok panics when the dynamic type differs (dynamic types are not modelled)")
			}
			if ins.CommaOk {
				if tag := ifaceTag(ins.AssertedType); tag != 0 {
					// v, ok := x.(T) for string, []byte, int64: ok iff the dynamic type is T (a tag on the interface value),
					// and then v is what the interface holds
					vc.ifaceDecls()
					vc.modelNote("type-switch")
					x := vc.scalar(ins.X)
					okT := Eq(app(SInt, "uf_iftype", x), IntLit(tag))
					var v *Val
					switch tag {
					case 1:
						v = vc.freshVal("tassert", ins.AssertedType)
						vc.assume(Implies(okT, Eq(v.T, app(SInt, "uf_ifstr", x))))
					case 2:
						v = vc.freshVal("tassert", ins.AssertedType)
						vc.assume(Implies(okT, And(Eq(v.Elems[0].T, app(SInt, "uf_ifbp", x)), Eq(v.Elems[1].T, app(SInt, "uf_ifbn", x)))))
						// the bytes lie in memory allocated before (the interface value was made before)
						vc.assume(Implies(okT, And(Lt(IntLit(0), v.Elems[0].T), Le(Add(v.Elems[0].T, vc.capOf(v)), st.cnt))))
					default:
						v = vc.freshVal("tassert", ins.AssertedType)
					}
					vc.vals[ins] = &Val{Kind: vTuple, Elems: []*Val{v, {T: okT, GoType: types.Typ[types.Bool]}}, GoType: ins.Type()}
					break
				}
			}
			vc.note("type assertion modelled as unconstrained (any value of the asserted type, any ok) at %s", vc.pos(ins.Pos()))
			vc.vals[ins] = vc.freshVal("tassert", ins.Type())
		case *ssa.Lookup:
			if isString(ins.X.Type()) {
				// s[i]: a byte of the string, in range
				idx := vc.scalar(ins.Index)
				vc.oblige("S", fmt.Sprintf("bounds#%d", vc.ord("bounds")), reach, And(Le(IntLit(0), idx), Lt(idx, vc.strLen(vc.scalar(ins.X)))), vc.propTags("C04"), ins.Pos(), "index in range")
				b := vc.define("strbyte", vc.strByte(vc.scalar(ins.X), idx))
				vc.assume(And(Le(IntLit(0), b), Le(b, IntLit(255))))
				vc.vals[ins] = &Val{T: b, GoType: ins.Type()}
				break
			}
			vc.unsupported("%T at %s", ins, vc.pos(ins.Pos()))
			vc.vals[ins] = vc.freshVal("unsup", ins.Type())
		case *ssa.MakeMap, *ssa.MapUpdate, *ssa.Range, *ssa.Next,
			*ssa.MakeClosure, *ssa.Defer, *ssa.Go, *ssa.Select, *ssa.Send, *ssa.RunDefers, *ssa.MakeChan, *ssa.SliceToArrayPointer, *ssa.MultiConvert:
			vc.unsupported("%T at %s", ins, vc.pos(ins.Pos()))
			if v, ok := ins.(ssa.Value); ok {
				vc.vals[v] = vc.freshVal("unsup", v.Type())
			}
		default:
			vc.unsupported("%T at %s", ins, vc.pos(ins.Pos()))
			if v, ok := ins.(ssa.Value); ok {
				vc.vals[v] = vc.freshVal("unsup", v.Type())
			}
		}
	}
	// back-edge obligations
	for _, s := range b.Succs {
		if vc.backEdge[[2]int{b.Index, s.Index}] {
			vc.backEdgeChecks(b, s, vc.edges[[2]int{b.Index, s.Index}])
		}
	}
}

// ---------------------------------------------------------------- memory instructions

func (vc *FuncVC) execAlloc(st *State, ins *ssa.Alloc) {
	t := ins.Type().(*types.Pointer).Elem()
	a := vc.define("alloc_"+ins.Comment, st.cnt)
	sz := vc.L.sizeOf(t)
	st.cnt = vc.define("cnt", Add(st.cnt, IntLit(sz+1)))
	// zero-initialise
	if _, isSlice := t.Underlying().(*types.Slice); isSlice {
		vc.unsupported("alloc of slice variable at %s", vc.pos(ins.Pos()))
	}
	// zeroing fresh memory is not a write through a shared BigInt representation (see settleBigCopies)
	wasCopy := vc.inBigCopy
	vc.inBigCopy = true
	defer func() { vc.inBigCopy = wasCopy }()
	for _, lf := range vc.L.leaves(t, 0, "") {
		var z Term
		switch lf.Sort {
		case SBool:
			z = TFalse
		case SBV:
			z = BVLit(0)
		default:
			z = IntLit(0)
		}
		vc.storeLeaf(st, lf.Key, Add(a, IntLit(lf.Off)), z)
	}
	vc.nonnil[ins] = true
	vc.vals[ins] = vc.ptrVal(a, ins.Type())
	if ins.Comment != "" {
		if _, dup := vc.allocs[ins.Comment]; !dup {
			vc.allocs[ins.Comment] = vc.vals[ins]
			vc.defBlock["&"+ins.Comment] = ins.Block()
		}
	}
}

func (vc *FuncVC) nilCheck(reach Term, p ssa.Value, what string, pos token.Pos) {
	if vc.nonnil[p] {
		return
	}
	switch p.(type) {
	case *ssa.Global, *ssa.FieldAddr, *ssa.IndexAddr, *ssa.Alloc:
		return
	}
	a := vc.scalar(p)
	vc.oblige("S", fmt.Sprintf("nil/%s#%d", what, vc.ord("nil/"+what)), reach, Ne(a, IntLit(0)), vc.propTags("C04"), pos, "nil dereference of "+p.Name())
	// after the check the pointer is known non-nil on this path
	vc.assume(Implies(reach, Ne(a, IntLit(0))))
}

func (vc *FuncVC) execFieldAddr(st *State, reach Term, ins *ssa.FieldAddr) {
	vc.nilCheck(reach, ins.X, "field", ins.Pos())
	base := vc.scalar(ins.X)
	pt := ins.X.Type().Underlying().(*types.Pointer).Elem()
	stt := pt.Underlying().(*types.Struct)
	f := stt.Field(ins.Field)
	ft := f.Type()
	sname := typeKeyName(pt)
	if isBigInt(pt) && !vc.L.layer1 {
		vc.unsupported("access to BigInt representation outside layer 1 at %s", vc.pos(ins.Pos()))
	}
	if sl, isSlice := ft.Underlying().(*types.Slice); isSlice {
		vc.vals[ins] = &Val{Kind: vLoc, Loc: &Loc{Key: sname + "." + f.Name(), Idx: base, Slice: sl, Type: ft}, T: base, GoType: ins.Type()}
		return
	}
	if s, ok := scalarSort(ft); ok {
		vc.vals[ins] = &Val{Kind: vLoc, Loc: &Loc{Key: sname + "." + f.Name(), Idx: base, Sort: s, Type: ft}, T: base, GoType: ins.Type()}
		return
	}
	off := vc.L.fieldOffset(stt, ins.Field)
	vc.vals[ins] = &Val{T: vc.define("fa", Add(base, IntLit(off))), GoType: ins.Type()}
}

func (vc *FuncVC) execIndexAddr(st *State, reach Term, ins *ssa.IndexAddr) {
	idx := vc.scalar(ins.Index)
	var base, length Term
	var elem types.Type
	switch xt := ins.X.Type().Underlying().(type) {
	case *types.Pointer:
		arr := xt.Elem().Underlying().(*types.Array)
		vc.nilCheck(reach, ins.X, "index", ins.Pos())
		base = vc.scalar(ins.X)
		length = IntLit(arr.Len())
		elem = arr.Elem()
		if g, ok := ins.X.(*ssa.Global); ok {
			if gi := vc.W.globals[g.Name()]; gi != nil {
				vc.touchGlobalElem(gi, st, idx)
			}
		}
	case *types.Slice:
		v := vc.val(ins.X)
		if v.Kind != vSlice {
			vc.unsupported("index of non-slice value")
			vc.vals[ins] = vc.freshVal("idx", ins.Type())
			return
		}
		base, length = v.Elems[0].T, v.Elems[1].T
		elem = xt.Elem()
	default:
		vc.unsupported("IndexAddr on %s", ins.X.Type())
		vc.vals[ins] = vc.freshVal("idx", ins.Type())
		return
	}
	if !(isLit(idx) && isLit(length) && litLess(idx, length)) {
		vc.oblige("S", fmt.Sprintf("bounds#%d", vc.ord("bounds")), reach, And(Le(IntLit(0), idx), Lt(idx, length)), vc.propTags("C04"), ins.Pos(), "index in range")
		vc.assume(Implies(reach, And(Le(IntLit(0), idx), Lt(idx, length))))
	}
	sz := vc.L.sizeOf(elem)
	addr := vc.define("ia", Add(base, Mul(IntLit(sz), idx)))
	if s, ok := scalarSort(elem); ok {
		vc.vals[ins] = &Val{Kind: vLoc, Loc: &Loc{Key: cellKey(elem), Idx: addr, Sort: s, Type: elem}, T: addr, GoType: ins.Type()}
		return
	}
	vc.vals[ins] = &Val{T: addr, GoType: ins.Type()}
}

func isLit(t Term) bool {
	if t.S == "" {
		return false
	}
	for _, c := range t.S {
		if c < '0' || c > '9' {
			return false
		}
	}
	return true
}

func litLess(a, b Term) bool {
	if len(a.S) != len(b.S) {
		return len(a.S) < len(b.S)
	}
	return a.S < b.S
}

func (vc *FuncVC) execStore(st *State, reach Term, ins *ssa.Store) {
	vc.nilCheck(reach, ins.Addr, "store", ins.Pos())
	a := vc.val(ins.Addr)
	v := vc.val(ins.Val)
	if a.Kind == vLoc {
		vc.storeLoc(st, a.Loc, v)
		return
	}
	t := ins.Addr.Type().Underlying().(*types.Pointer).Elem()
	if v.Kind == vAgg {
		vc.storeAgg(st, a.T, t, v)
		return
	}
	vc.unsupported("store of %s at %s", t, vc.pos(ins.Pos()))
}

func (vc *FuncVC) execSlice(st *State, reach Term, ins *ssa.Slice) {
	var lo, hi Term
	lo = IntLit(0)
	if ins.Low != nil {
		lo = vc.scalar(ins.Low)
	}
	// S: 0 <= low <= high <= max <= capacity (a slice may be re-sliced up to its capacity)
	bounds := func(hi, capT Term) {
		mx := capT
		g := []Term{Le(IntLit(0), lo), Le(lo, hi)}
		if ins.Max != nil {
			mx = vc.scalar(ins.Max)
			g = append(g, Le(hi, mx), Le(mx, capT))
		} else {
			g = append(g, Le(hi, capT))
		}
		goal := And(g...)
		if goal.S == "true" {
			return
		}
		vc.oblige("S", fmt.Sprintf("slice-bounds#%d", vc.ord("slice-bounds")), reach, goal, vc.propTags("C04"), ins.Pos(), "slice expression within bounds")
		vc.assume(Implies(reach, goal))
	}
	switch xt := ins.X.Type().Underlying().(type) {
	case *types.Pointer:
		arr := xt.Elem().Underlying().(*types.Array)
		base := vc.scalar(ins.X)
		hi = IntLit(arr.Len())
		if ins.High != nil {
			hi = vc.scalar(ins.High)
		}
		bounds(hi, IntLit(arr.Len()))
		capT := Sub(IntLit(arr.Len()), lo)
		if ins.Max != nil {
			capT = Sub(vc.scalar(ins.Max), lo)
		}
		es := vc.L.sizeOf(arr.Elem())
		vc.vals[ins] = &Val{Kind: vSlice, Elems: []*Val{{T: Add(base, Mul(IntLit(es), lo))}, {T: Sub(hi, lo)}, {T: capT}}, GoType: ins.Type()}
	case *types.Slice:
		v := vc.val(ins.X)
		if v.Kind != vSlice {
			vc.vals[ins] = vc.freshVal("slice", ins.Type())
			return
		}
		hi = v.Elems[1].T
		if ins.High != nil {
			hi = vc.scalar(ins.High)
		}
		oldCap := vc.capOf(v)
		bounds(hi, oldCap)
		capT := Sub(oldCap, lo)
		if ins.Max != nil {
			capT = Sub(vc.scalar(ins.Max), lo)
		}
		es := vc.L.sizeOf(xt.Elem())
		vc.vals[ins] = &Val{Kind: vSlice, Elems: []*Val{{T: Add(v.Elems[0].T, Mul(IntLit(es), lo))}, {T: Sub(hi, lo)}, {T: capT}}, GoType: ins.Type()}
	default:
		// strings: the length is strlen(code) - exact for a constant, otherwise whatever the facts on the way say
		n := vc.strLen(vc.scalar(ins.X))
		hi = n
		if ins.High != nil {
			hi = vc.scalar(ins.High)
		}
		bounds(hi, n)
		r := vc.freshVal("strslice", ins.Type())
		vc.assume(Implies(reach, Eq(vc.strLen(r.T), Sub(hi, lo))))
		src, lo0 := vc.scalar(ins.X), lo
		vc.assume(Implies(reach, vc.strSegFact(r.T, IntLit(0), Sub(hi, lo), func(t Term) Term { return vc.strByte(src, Add(lo0, t)) })))
		vc.vals[ins] = r
	}
}

func (vc *FuncVC) execField(ins *ssa.Field) {
	x := vc.val(ins.X)
	stt := ins.X.Type().Underlying().(*types.Struct)
	if x.Kind != vAgg {
		vc.unsupported("Field of non-aggregate")
		vc.vals[ins] = vc.freshVal("field", ins.Type())
		return
	}
	start := 0
	for i := 0; i < ins.Field; i++ {
		start += vc.leafCount(stt.Field(i).Type())
	}
	n := vc.leafCount(stt.Field(ins.Field).Type())
	ft := stt.Field(ins.Field).Type()
	if _, isSlice := ft.Underlying().(*types.Slice); isSlice {
		vc.vals[ins] = &Val{Kind: vSlice, Elems: []*Val{{T: x.Flat[start]}, {T: x.Flat[start+1]}, vc.freshCap(x.Flat[start+1])}, GoType: ft}
		return
	}
	if _, ok := scalarSort(ft); ok {
		vc.vals[ins] = vc.ptrOrScalar(x.Flat[start], ft)
		return
	}
	vc.vals[ins] = &Val{Kind: vAgg, Flat: x.Flat[start : start+n], GoType: ft}
}

func (vc *FuncVC) ptrOrScalar(t Term, ty types.Type) *Val {
	if _, ok := ty.Underlying().(*types.Pointer); ok {
		return vc.ptrVal(t, ty)
	}
	return &Val{T: t, GoType: ty}
}

func (vc *FuncVC) leafCount(t types.Type) int {
	return len(vc.L.leaves(t, 0, ""))
}

func (vc *FuncVC) execIndex(reach Term, ins *ssa.Index) {
	x := vc.val(ins.X)
	arr, ok := ins.X.Type().Underlying().(*types.Array)
	if !ok || x.Kind != vAgg {
		vc.vals[ins] = vc.freshVal("index", ins.Type())
		return
	}
	idx := vc.scalar(ins.Index)
	n := vc.leafCount(arr.Elem())
	if n != 1 {
		vc.unsupported("Index of array of aggregates")
		vc.vals[ins] = vc.freshVal("index", ins.Type())
		return
	}
	expr := x.Flat[len(x.Flat)-1]
	for i := len(x.Flat) - 2; i >= 0; i-- {
		expr = Ite(Eq(idx, IntLit(int64(i))), x.Flat[i], expr)
	}
	vc.vals[ins] = &Val{T: expr, GoType: ins.Type()}
}

// ---------------------------------------------------------------- operators

func (vc *FuncVC) execUnOp(st *State, reach Term, ins *ssa.UnOp) {
	switch ins.Op {
	case token.MUL: // load
		vc.nilCheck(reach, ins.X, "load", ins.Pos())
		x := vc.val(ins.X)
		if vc.dirtyKeys != nil {
			vc.readRoots = vc.roots(ins.X)
			defer func() { vc.readRoots = nil }()
		}
		if x.Kind == vLoc {
			vc.vals[ins] = vc.loadLoc(st, x.Loc)
			return
		}
		vc.vals[ins] = vc.loadAgg(st, x.T, ins.Type())
	case token.NOT:
		vc.vals[ins] = &Val{T: Not(vc.scalar(ins.X)), GoType: ins.Type()}
	case token.SUB:
		t := ins.Type()
		if bits, signed, ok := intRange(t); ok {
			vc.vals[ins] = &Val{T: vc.define("neg", Wrap(Neg(vc.scalar(ins.X)), bits, signed)), GoType: t}
		} else {
			vc.vals[ins] = vc.freshVal("fneg", t)
		}
	case token.XOR:
		t := ins.Type()
		if isCondition(t) {
			vc.vals[ins] = &Val{T: app(SBV, "bvnot", vc.scalar(ins.X)), GoType: t}
		} else if bits, signed, ok := intRange(t); ok {
			x := vc.scalar(ins.X)
			if signed {
				vc.vals[ins] = &Val{T: Sub(Neg(x), IntLit(1)), GoType: t}
			} else {
				vc.vals[ins] = &Val{T: Sub(BigLit(pow2big(bits)), Add(x, IntLit(1))), GoType: t}
			}
		} else {
			vc.vals[ins] = vc.freshVal("xor", t)
		}
	default:
		vc.unsupported("unary %s", ins.Op)
		vc.vals[ins] = vc.freshVal("unop", ins.Type())
	}
}

func isFloat(t types.Type) bool {
	b, ok := t.Underlying().(*types.Basic)
	return ok && b.Info()&(types.IsFloat|types.IsComplex) != 0
}

// ifaceTag: the dynamic-type tag of the types a type switch of this package distinguishes (0: not modelled)
func ifaceTag(t types.Type) int64 {
	if _, named := t.(*types.Named); named {
		return 0
	}
	switch u := t.Underlying().(type) {
	case *types.Basic:
		switch {
		case u.Info()&types.IsString != 0:
			return 1
		case u.Kind() == types.Int64:
			return 3
		case u.Kind() == types.Float64:
			return 4
		}
	case *types.Slice:
		if b, ok := u.Elem().Underlying().(*types.Basic); ok && b.Kind() == types.Uint8 {
			return 2
		}
	}
	return 0
}

func (c *Ctx) ifaceDecls() {
	for _, d := range [][2]string{{"uf_iftype", "(Int) Int"}, {"uf_ifstr", "(Int) Int"}, {"uf_ifbp", "(Int) Int"}, {"uf_ifbn", "(Int) Int"}} {
		if !c.declared[d[0]] {
			c.declared[d[0]] = true
			c.decls = append(c.decls, "(declare-fun "+d[0]+" "+d[1]+")")
		}
	}
}

func isString(t types.Type) bool {
	b, ok := t.Underlying().(*types.Basic)
	return ok && b.Info()&types.IsString != 0
}

func (vc *FuncVC) execBinOp(st *State, reach Term, ins *ssa.BinOp) {
	xt := ins.X.Type()
	rt := ins.Type()
	cmp := func(op string, a, b Term) *Val { return &Val{T: app(SBool, op, a, b), GoType: rt} }
	// aggregates: == and != only
	xv, yv := vc.val(ins.X), vc.val(ins.Y)
	if xv.Kind == vAgg || yv.Kind == vAgg {
		if xv.Kind == vAgg && yv.Kind == vAgg && len(xv.Flat) == len(yv.Flat) && (ins.Op == token.EQL || ins.Op == token.NEQ) {
			var cs []Term
			for i := range xv.Flat {
				cs = append(cs, Eq(xv.Flat[i], yv.Flat[i]))
			}
			t := And(cs...)
			if ins.Op == token.NEQ {
				t = Not(t)
			}
			vc.vals[ins] = &Val{T: t, GoType: rt}
			return
		}
		vc.unsupported("binary op on aggregates at %s", vc.pos(ins.Pos()))
		vc.vals[ins] = vc.freshVal("binop", rt)
		return
	}
	if isFloat(xt) {
		vc.vals[ins] = vc.freshVal("fop", rt)
		return
	}
	x, y := vc.scalar(ins.X), vc.scalar(ins.Y)
	if isString(xt) {
		switch ins.Op {
		case token.EQL, token.NEQ:
			eq := Eq(x, y)
			// against a constant: equal length and equal bytes (exact). Only for plain strings: the values of a named
			// string type such as Rounder are compared as codes, in the code and in the contracts alike.
			_, xNamed := ins.X.Type().(*types.Named)
			_, yNamed := ins.Y.Type().(*types.Named)
			if xNamed || yNamed {
			} else if c, isC := ins.Y.(*ssa.Const); isC && c.Value != nil && c.Value.Kind() == constant.String && len(constant.StringVal(c.Value)) <= 32 {
				eq = vc.strEqConst(x, constant.StringVal(c.Value))
			} else if c, isC := ins.X.(*ssa.Const); isC && c.Value != nil && c.Value.Kind() == constant.String && len(constant.StringVal(c.Value)) <= 32 {
				eq = vc.strEqConst(y, constant.StringVal(c.Value))
			}
			if ins.Op == token.NEQ {
				eq = Not(eq)
			}
			vc.vals[ins] = &Val{T: vc.define("streq", eq), GoType: rt}
		case token.ADD:
			r := vc.freshVal("strcat", rt)
			vc.assume(Eq(vc.strLen(r.T), Add(vc.strLen(x), vc.strLen(y))))
			lx := vc.strLen(x)
			vc.assume(vc.strSegFact(r.T, IntLit(0), lx, func(t Term) Term { return vc.strByte(x, t) }))
			vc.assume(vc.strSegFact(r.T, lx, Add(lx, vc.strLen(y)), func(t Term) Term { return vc.strByte(y, Sub(t, lx)) }))
			vc.vals[ins] = r
		default:
			vc.vals[ins] = vc.freshVal("strop", rt)
		}
		return
	}
	if isCondition(xt) {
		switch ins.Op {
		case token.OR:
			vc.vals[ins] = &Val{T: app(SBV, "bvor", x, y), GoType: rt}
		case token.AND:
			vc.vals[ins] = &Val{T: app(SBV, "bvand", x, y), GoType: rt}
		case token.XOR:
			vc.vals[ins] = &Val{T: app(SBV, "bvxor", x, y), GoType: rt}
		case token.AND_NOT:
			vc.vals[ins] = &Val{T: app(SBV, "bvand", x, app(SBV, "bvnot", y)), GoType: rt}
		case token.EQL:
			vc.vals[ins] = &Val{T: Eq(x, y), GoType: rt}
		case token.NEQ:
			vc.vals[ins] = &Val{T: Ne(x, y), GoType: rt}
		case token.SHL:
			// y is an Int shift count; only literal counts are modelled (Go: counts >= 32 give 0)
			if c, ok := ins.Y.(*ssa.Const); ok && c.Value != nil {
				n, _ := constant.Uint64Val(constant.ToInt(c.Value))
				if n >= 32 {
					vc.vals[ins] = &Val{T: BVLit(0), GoType: rt}
				} else {
					vc.vals[ins] = &Val{T: app(SBV, "bvshl", x, BVLit(uint32(n))), GoType: rt}
				}
			} else {
				vc.unsupported("shift of Condition by a non-constant count")
				vc.vals[ins] = vc.freshVal("condshift", rt)
			}
		default:
			vc.unsupported("Condition op %s", ins.Op)
			vc.vals[ins] = vc.freshVal("condop", rt)
		}
		return
	}
	if x.Sort == SBool {
		switch ins.Op {
		case token.EQL:
			vc.vals[ins] = &Val{T: Eq(x, y), GoType: rt}
		case token.NEQ:
			vc.vals[ins] = &Val{T: Ne(x, y), GoType: rt}
		default:
			vc.unsupported("bool op %s", ins.Op)
			vc.vals[ins] = vc.freshVal("boolop", rt)
		}
		return
	}
	// integers and pointers
	switch ins.Op {
	case token.EQL:
		vc.vals[ins] = &Val{T: Eq(x, y), GoType: rt}
		return
	case token.NEQ:
		vc.vals[ins] = &Val{T: Ne(x, y), GoType: rt}
		return
	case token.LSS:
		vc.vals[ins] = cmp("<", x, y)
		return
	case token.LEQ:
		vc.vals[ins] = cmp("<=", x, y)
		return
	case token.GTR:
		vc.vals[ins] = cmp(">", x, y)
		return
	case token.GEQ:
		vc.vals[ins] = cmp(">=", x, y)
		return
	}
	bits, signed, ok := intRange(rt)
	if !ok {
		vc.unsupported("binary %s on %s", ins.Op, rt)
		vc.vals[ins] = vc.freshVal("binop", rt)
		return
	}
	var raw Term
	switch ins.Op {
	case token.ADD:
		raw = Add(x, y)
	case token.SUB:
		raw = Sub(x, y)
	case token.MUL:
		raw = Mul(x, y)
	case token.QUO, token.REM:
		if !(isLit(y) && y.S != "0") {
			vc.oblige("S", fmt.Sprintf("divzero#%d", vc.ord("divzero")), reach, Ne(y, IntLit(0)), vc.propTags("C04"), ins.Pos(), "division by zero")
			vc.assume(Implies(reach, Ne(y, IntLit(0))))
		}
		if !isLitTerm(y) {
			x, y = vc.define("dvd", x), vc.define("dvs", y)
		}
		if ins.Op == token.QUO {
			raw = TDiv(x, y)
		} else {
			raw = TMod(x, y)
		}
	case token.SHL, token.SHR:
		if isLit(y) {
			var n int
			fmt.Sscan(y.S, &n)
			if ins.Op == token.SHL {
				raw = Mul(x, BigLit(pow2big(n)))
			} else {
				raw = app(SInt, "div", x, BigLit(pow2big(n))) // floor division = arithmetic shift
			}
		}
	case token.AND:
		// x & (2^k-1)
		if isLit(y) {
			var n uint64
			fmt.Sscan(y.S, &n)
			if n&(n+1) == 0 && !signed {
				raw = app(SInt, "mod", x, IntLit(int64(n+1)))
			}
		}
	case token.XOR:
		if isLit(y) && y.S == "0" {
			raw = x
		}
	}
	if raw.S == "" {
		vc.note("integer operation %s modelled as unconstrained at %s", ins.Op, vc.pos(ins.Pos()))
		vc.vals[ins] = vc.freshVal("bitop", rt)
		return
	}
	vc.vals[ins] = &Val{T: vc.define(ins.Name(), Wrap(raw, bits, signed)), GoType: rt}
}

func (vc *FuncVC) convert(x *Val, from, to types.Type) *Val {
	if x.Kind != vScalar && x.Kind != vLoc {
		return vc.freshVal("conv", to)
	}
	t := x.T
	if x.Kind == vLoc {
		t = x.Loc.Idx
	}
	if isCondition(from) && isCondition(to) {
		return &Val{T: t, GoType: to}
	}
	if isCondition(to) || isCondition(from) {
		// Condition <-> integer
		if isCondition(to) && isLit(t) {
			var n uint32
			fmt.Sscan(t.S, &n)
			return &Val{T: BVLit(n), GoType: to}
		}
		vc.note("Condition/integer conversion modelled as unconstrained")
		return vc.freshVal("condconv", to)
	}
	if isFloat(from) || isFloat(to) || isString(from) || isString(to) {
		return vc.freshVal("conv", to)
	}
	if _, ok := from.Underlying().(*types.Slice); ok {
		return vc.freshVal("conv", to)
	}
	if bits, signed, ok := intRange(to); ok {
		if _, _, fromInt := intRange(from); fromInt {
			fb, fs, _ := intRange(from)
			if fs == signed && fb <= bits || (!fs && signed && fb < bits) {
				return &Val{T: t, GoType: to} // value-preserving widening
			}
			return &Val{T: vc.define("conv", Wrap(t, bits, signed)), GoType: to}
		}
		return &Val{T: t, GoType: to} // pointer -> uintptr
	}
	// integer -> pointer (unsafe) or pointer -> pointer
	return vc.ptrOrScalar(t, to)
}
