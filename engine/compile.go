package main

import (
	"fmt"
	"go/constant"
	"go/types"
	"math/big"
	"strconv"
	"strings"
)

type SKind int

const (
	KInt SKind = iota
	KBool
	KCond
	KRef
	KSlice
	KStruct
)

type SType struct {
	K    SKind
	Elem types.Type // KRef: pointee type; KSlice: element type
}

type SVal struct {
	T    Term
	Ty   SType
	Len  Term   // KSlice
	Cap  Term   // KSlice: capacity ("" when unknown: a fresh constant >= Len is made on demand)
	Flat []Term // KStruct: flattened leaves (Ty.Elem is the struct type)
	Str  Term   // KSlice made by bytes(s): the code of the string whose bytes these are (no cells: strbyte(code, i))
}

func stypeOfGo(t types.Type) SType {
	if isCondition(t) {
		return SType{K: KCond}
	}
	switch u := t.Underlying().(type) {
	case *types.Basic:
		if u.Info()&types.IsBoolean != 0 {
			return SType{K: KBool}
		}
		return SType{K: KInt}
	case *types.Pointer:
		return SType{K: KRef, Elem: u.Elem()}
	case *types.Slice:
		return SType{K: KSlice, Elem: u.Elem()}
	}
	return SType{K: KInt}
}

func (st SType) sort() Sort {
	switch st.K {
	case KBool:
		return SBool
	case KCond:
		return SBV
	}
	return SInt
}

const GEND = 1 << 20 // end of the global (read-only) region

var negSentinelAddr int64 // address of the negSentinel big.Int object (set by World)

// Env is the evaluation environment of a spec expression.
type Env struct {
	g        *Gen
	cur, old *State
	vars     map[string]SVal
	entry    map[string]SVal // the function's parameters as they were at entry: what their names mean inside old(...)
	noDefine bool
	depth    int
}

func (e *Env) with(vars map[string]SVal) *Env {
	n := *e
	n.vars = map[string]SVal{}
	for k, v := range e.vars {
		n.vars[k] = v
	}
	for k, v := range vars {
		n.vars[k] = v
	}
	return &n
}

// old0 is the state in which assigns-clauses locate objects (the pre-state).
func (e *Env) old0() *State {
	if e.old != nil {
		return e.old
	}
	return e.cur
}

func (e *Env) fail(format string, args ...interface{}) {
	panic(fmt.Sprintf("spec: "+format, args...))
}

func (e *Env) define(hint string, t Term) Term {
	if e.noDefine {
		return t
	}
	return e.g.define(hint, t)
}

func (e *Env) parseType(s string) SType {
	s = strings.TrimSpace(s)
	switch s {
	case "int", "rounder", "form", "error", "string", "fmtstate":
		return SType{K: KInt}
	case "bool":
		return SType{K: KBool}
	case "cond":
		return SType{K: KCond}
	}
	if strings.HasPrefix(s, "[]") {
		switch s[2:] {
		case "int64":
			return SType{K: KSlice, Elem: types.Typ[types.Int64]}
		case "byte":
			return SType{K: KSlice, Elem: types.Universe.Lookup("byte").Type()}
		}
		e.fail("unknown slice type %s", s)
	}
	if strings.HasPrefix(s, "*") {
		name := s[1:]
		if name == "big.Int" {
			return SType{K: KRef, Elem: e.g.W.mathBigIntType()}
		}
		obj := e.g.W.pkg.Types.Scope().Lookup(name)
		if obj == nil {
			e.fail("unknown type %s", s)
		}
		return SType{K: KRef, Elem: obj.Type()}
	}
	e.fail("unknown spec type %q", s)
	return SType{}
}

func (e *Env) boolean(x Expr) Term {
	v := e.eval(x)
	if v.Ty.K != KBool {
		e.fail("expected bool, got kind %d in %s", v.Ty.K, exprString(x))
	}
	return v.T
}

func (e *Env) integer(x Expr) Term {
	v := e.eval(x)
	if v.Ty.K != KInt && v.Ty.K != KRef {
		e.fail("expected int, got kind %d in %s", v.Ty.K, exprString(x))
	}
	return v.T
}

// capOf: the capacity of a slice value; unknown capacities are fresh constants, at least the length.
func (e *Env) capOf(v SVal) Term {
	if v.Cap.S != "" {
		return v.Cap
	}
	c := e.g.fresh("cap", SInt)
	e.g.assume(And(Ge(c, v.Len), Lt(c, BigLit(pow2big(62)))))
	return c
}

func iv(t Term) SVal { return SVal{T: t, Ty: SType{K: KInt}} }
func bv(t Term) SVal { return SVal{T: t, Ty: SType{K: KBool}} }
func cv(t Term) SVal { return SVal{T: t, Ty: SType{K: KCond}} }

func (e *Env) eval(x Expr) SVal {
	switch x := x.(type) {
	case *EStr:
		return iv(IntLit(e.g.W.strCode(x.S)))
	case *ELit:
		n, ok := new(big.Int).SetString(x.V, 0)
		if !ok {
			e.fail("bad literal %s", x.V)
		}
		return iv(BigLit(n))
	case *EBool:
		return bv(BoolLit(x.V))
	case *ENil:
		return SVal{T: IntLit(0), Ty: SType{K: KRef}}
	case *EIdent:
		return e.ident(x.Name)
	case *EOld:
		if e.old == nil {
			e.fail("old() not available here")
		}
		if id, ok := x.X.(*EIdent); ok {
			if v, ok := e.vars[id.Name]; ok && v.Ty.K == KRef {
				e.fail("old(%s) of a reference is just the reference: write old(f(%s)) instead of f(old(%s))", id.Name, id.Name, id.Name)
			}
		}
		n := *e
		n.cur = e.old
		if len(e.entry) > 0 {
			// parameters are mutable: inside old(...) their names denote the entry values, also at a loop head where
			// the plain name is the current value
			n.vars = map[string]SVal{}
			for k, v := range e.vars {
				n.vars[k] = v
			}
			for k, v := range e.entry {
				n.vars[k] = v
			}
		}
		return n.eval(x.X)
	case *ELet:
		v := e.eval(x.V)
		v.T = e.define(x.Name, v.T)
		return e.with(map[string]SVal{x.Name: v}).eval(x.Body)
	case *EForall:
		lo, hi := e.integer(x.Lo), e.integer(x.Hi)
		e.g.nfresh++
		bvName := fmt.Sprintf("q_%s_%d", x.Var, e.g.nfresh)
		n := e.with(map[string]SVal{x.Var: iv(Term{bvName, SInt})})
		n.noDefine = true
		saved := e.g.noSideFacts
		e.g.noSideFacts = true
		body := n.boolean(x.Body)
		e.g.noSideFacts = saved
		return bv(Term{fmt.Sprintf("(forall ((%s Int)) (=> (and (<= %s %s) (<= %s %s)) %s))", bvName, lo.S, bvName, bvName, hi.S, body.S), SBool})
	case *EUn:
		switch x.Op {
		case "!":
			return bv(Not(e.boolean(x.X)))
		case "-":
			return iv(Neg(e.integer(x.X)))
		case "~":
			v := e.eval(x.X)
			if v.Ty.K != KCond {
				e.fail("~ needs a Condition")
			}
			return cv(app(SBV, "bvnot", v.T))
		case "*":
			v := e.eval(x.X)
			if _, isName := x.X.(*EIdent); isName && v.Ty.K != KRef && (v.Ty.K == KInt || v.Ty.K == KBool || v.Ty.K == KCond) {
				// *name for a source-level local: the contract was written when the local was address-taken (its SSA value
				// is then a pointer to its cell); after a change that no longer takes its address the name is the value
				// itself. Accept both, so that such a change still gets its obligations generated.
				return v
			}
			if v.Ty.K != KRef {
				e.fail("* needs a pointer")
			}
			if s, ok := scalarSort(v.Ty.Elem); ok {
				t := e.g.load(e.cur, cellKey(v.Ty.Elem), v.T, s)
				return SVal{T: t, Ty: stypeOfGo(v.Ty.Elem)}
			}
			e.fail("* of aggregate")
		}
	case *EBin:
		return e.binary(x)
	case *EField:
		return e.field(x)
	case *EIndex:
		return e.index(x)
	case *ECall:
		return e.call(x)
	}
	e.fail("cannot evaluate %T", x)
	return SVal{}
}

func (e *Env) ident(name string) SVal {
	if v, ok := e.vars[name]; ok {
		return v
	}
	W := e.g.W
	if obj := W.pkg.Types.Scope().Lookup(name); obj != nil {
		switch o := obj.(type) {
		case *types.Const:
			return e.constVal(o.Val(), o.Type())
		case *types.Var:
			gi := W.globals[name]
			if gi == nil {
				e.fail("global %s has no address", name)
			}
			e.g.touchGlobal(gi, e.cur)
			if gi.Pointee != 0 {
				return SVal{T: IntLit(gi.Pointee), Ty: SType{K: KRef, Elem: gi.PointeeType}}
			}
			return SVal{T: IntLit(gi.Addr), Ty: SType{K: KRef, Elem: gi.Type}}
		}
	}
	e.fail("unknown identifier %s", name)
	return SVal{}
}

func (e *Env) constVal(v constant.Value, t types.Type) SVal {
	switch v.Kind() {
	case constant.Bool:
		return bv(BoolLit(constant.BoolVal(v)))
	case constant.String:
		return iv(IntLit(e.g.W.strCode(constant.StringVal(v))))
	case constant.Int:
		n, _ := new(big.Int).SetString(v.ExactString(), 10)
		if isCondition(t) {
			return cv(BVLit(uint32(n.Uint64())))
		}
		return iv(BigLit(n))
	}
	e.fail("unsupported constant kind %v", v.Kind())
	return SVal{}
}

func (e *Env) binary(x *EBin) SVal {
	switch x.Op {
	case "&&":
		return bv(And(e.boolean(x.X), e.boolean(x.Y)))
	case "||":
		return bv(Or(e.boolean(x.X), e.boolean(x.Y)))
	case "==>":
		return bv(Implies(e.boolean(x.X), e.boolean(x.Y)))
	case "<==>":
		return bv(Eq(e.boolean(x.X), e.boolean(x.Y)))
	}
	a, b := e.eval(x.X), e.eval(x.Y)
	a, b = coerceCond(x.X, a, b), coerceCond(x.Y, b, a)
	switch x.Op {
	case "==", "!=":
		if a.T.Sort != b.T.Sort {
			e.fail("== on different sorts in %s", exprString(x))
		}
		if x.Op == "==" {
			return bv(Eq(a.T, b.T))
		}
		return bv(Ne(a.T, b.T))
	case "<", "<=", ">", ">=":
		if a.T.Sort != SInt || b.T.Sort != SInt {
			e.fail("comparison on non-int in %s", exprString(x))
		}
		return bv(app(SBool, x.Op, a.T, b.T))
	case "+", "-", "*":
		if a.T.Sort != SInt || b.T.Sort != SInt {
			e.fail("arithmetic on non-int in %s", exprString(x))
		}
		return iv(app(SInt, x.Op, a.T, b.T))
	case "&", "|", "^", "&^":
		if a.Ty.K != KCond || b.Ty.K != KCond {
			e.fail("bit operation on non-Condition in %s", exprString(x))
		}
		switch x.Op {
		case "&":
			return cv(app(SBV, "bvand", a.T, b.T))
		case "|":
			return cv(app(SBV, "bvor", a.T, b.T))
		case "^":
			return cv(app(SBV, "bvxor", a.T, b.T))
		default:
			return cv(app(SBV, "bvand", a.T, app(SBV, "bvnot", b.T)))
		}
	}
	e.fail("unknown operator %s", x.Op)
	return SVal{}
}

func (e *Env) field(x *EField) SVal {
	base := e.eval(x.X)
	if base.Ty.K == KStruct {
		stt := base.Ty.Elem.Underlying().(*types.Struct)
		start := 0
		for i := 0; i < stt.NumFields(); i++ {
			ft := stt.Field(i).Type()
			n := len(e.g.L.leaves(ft, 0, ""))
			if _, isSlice := ft.Underlying().(*types.Slice); isSlice {
				n = 2
			}
			if stt.Field(i).Name() == x.Name {
				if _, ok := scalarSort(ft); ok {
					return SVal{T: base.Flat[start], Ty: stypeOfGo(ft)}
				}
				return SVal{T: IntLit(0), Ty: SType{K: KStruct, Elem: ft}, Flat: base.Flat[start : start+n]}
			}
			start += n
		}
		e.fail("no field %s", x.Name)
	}
	if base.Ty.K != KRef || base.Ty.Elem == nil {
		e.fail("field %s of non-reference in %s", x.Name, exprString(x))
	}
	return e.g.fieldOf(e.cur, base.T, base.Ty.Elem, x.Name)
}

// fieldOf reads field `name` of the struct of type t at address a.
func (g *Gen) fieldOf(st *State, a Term, t types.Type, name string) SVal {
	stt, ok := t.Underlying().(*types.Struct)
	if !ok {
		panic(fmt.Sprintf("spec: field %s of non-struct %s", name, t))
	}
	if isBigInt(t) && !g.L.layer1 {
		panic("spec: BigInt fields are not visible in layer 2")
	}
	for i := 0; i < stt.NumFields(); i++ {
		f := stt.Field(i)
		if f.Name() != name {
			continue
		}
		off := g.L.fieldOffset(stt, i)
		ft := f.Type()
		sname := typeKeyName(t)
		if sl, isSlice := ft.Underlying().(*types.Slice); isSlice {
			p := g.load(st, sname+"."+name+"#ptr", a, SInt)
			l := g.load(st, sname+"."+name+"#len", a, SInt)
			return SVal{T: p, Len: l, Ty: SType{K: KSlice, Elem: sl.Elem()}}
		}
		if s, ok := scalarSort(ft); ok {
			v := g.load(st, sname+"."+name, a, s)
			if _, _, isInt := intRange(ft); isInt && !isCondition(ft) && !g.noSideFacts {
				// typing invariant of the heap: an integer field holds a value of its type
				g.assume(rangeFact(v, ft))
			}
			return SVal{T: v, Ty: stypeOfGo(ft)}
		}
		return SVal{T: Add(a, IntLit(off)), Ty: SType{K: KRef, Elem: ft}}
	}
	panic(fmt.Sprintf("spec: no field %s in %s", name, t))
}

func (e *Env) index(x *EIndex) SVal {
	base := e.eval(x.X)
	i := e.integer(x.I)
	var elem types.Type
	switch base.Ty.K {
	case KRef:
		arr, ok := base.Ty.Elem.Underlying().(*types.Array)
		if !ok {
			e.fail("index of non-array in %s", exprString(x))
		}
		elem = arr.Elem()
		if gi := e.g.W.globalByAddr(base.T); gi != nil {
			e.g.touchGlobalElem(gi, e.cur, i)
		}
	case KSlice:
		elem = base.Ty.Elem
		if base.Str.S != "" {
			return SVal{T: e.g.strByte(base.Str, i), Ty: stypeOfGo(elem)}
		}
	default:
		e.fail("index of non-array in %s", exprString(x))
	}
	sz := e.g.L.sizeOf(elem)
	addr := Add(base.T, Mul(IntLit(sz), i))
	if s, ok := scalarSort(elem); ok {
		return SVal{T: e.g.load(e.cur, cellKey(elem), addr, s), Ty: stypeOfGo(elem)}
	}
	return SVal{T: addr, Ty: SType{K: KRef, Elem: elem}}
}

func (e *Env) call(x *ECall) SVal {
	args := x.Args
	need := func(n int) {
		if len(args) != n {
			e.fail("%s expects %d arguments", x.Fn, n)
		}
	}
	switch x.Fn {
	case "pow10", "nd10", "pow2", "bitlen":
		need(1)
		return iv(app(SInt, x.Fn, e.integer(args[0])))
	case "wrap64":
		need(1)
		return iv(Wrap(e.integer(args[0]), 64, true))
	case "wrap64u":
		need(1)
		return iv(Wrap(e.integer(args[0]), 64, false))
	case "abs":
		need(1)
		return iv(app(SInt, "absi", e.integer(args[0])))
	case "sgn":
		need(1)
		return iv(app(SInt, "sgni", e.integer(args[0])))
	case "min":
		need(2)
		return iv(app(SInt, "mini", e.integer(args[0]), e.integer(args[1])))
	case "max":
		need(2)
		return iv(app(SInt, "maxi", e.integer(args[0]), e.integer(args[1])))
	case "tdiv", "tmod", "div", "mod":
		need(2)
		a, b := e.integer(args[0]), e.integer(args[1])
		if !isLitTerm(b) {
			a, b = e.define("dvd", a), e.define("dvs", b)
		}
		switch x.Fn {
		case "tdiv":
			return iv(TDiv(a, b))
		case "tmod":
			return iv(TMod(a, b))
		case "div":
			return iv(EDiv(a, b))
		}
		return iv(EMod(a, b))
	case "ite":
		need(3)
		c := e.boolean(args[0])
		a, b := e.eval(args[1]), e.eval(args[2])
		a, b = coerceCond(args[1], a, b), coerceCond(args[2], b, a)
		if a.T.Sort != b.T.Sort {
			e.fail("ite branches differ in sort")
		}
		return SVal{T: Ite(c, a.T, b.T), Ty: a.Ty}
	case "len":
		need(1)
		v := e.eval(args[0])
		if v.Ty.K != KSlice {
			e.fail("len of non-slice")
		}
		return iv(v.Len)
	case "cap":
		need(1)
		v := e.eval(args[0])
		if v.Ty.K != KSlice {
			e.fail("cap of non-slice")
		}
		return iv(e.capOf(v))
	case "beval":
		// beval(s): the unsigned big-endian integer spelled by the bytes of s in the current state - an uninterpreted
		// function of (array, first cell, length): math/big's Bytes/FillBytes/SetBytes are specified with it
		need(1)
		v := e.eval(args[0])
		if v.Ty.K != KSlice || v.Str.S != "" {
			e.fail("beval needs a byte slice")
		}
		if !e.g.declared["be_val"] {
			e.g.declared["be_val"] = true
			e.g.decls = append(e.g.decls, "(declare-fun be_val ((Array Int Int) Int Int) Int)")
		}
		return iv(app(SInt, "be_val", e.g.arr(e.cur, cellKey(v.Ty.Elem), SInt), v.T, v.Len))
	case "wlog":
		// wlog(s): everything written so far to the fmt.State s, as a byte slice (ghost)
		need(1)
		v := e.eval(args[0])
		lp, ln := e.g.stateLog(e.cur, v.T)
		return SVal{T: lp, Ty: SType{K: KSlice, Elem: types.Universe.Lookup("byte").Type()}, Len: ln}
	case "wlogok":
		// the log of s lies in allocated memory (below the allocation counter of the current state)
		need(1)
		v := e.eval(args[0])
		lp, ln := e.g.stateLog(e.cur, v.T)
		return bv(And(Lt(IntLit(0), lp), Le(IntLit(0), ln), Le(Add(lp, ln), e.cur.cnt)))
	case "stflag":
		need(2)
		if !e.g.declared["uf_stflag"] {
			e.g.declared["uf_stflag"] = true
			e.g.decls = append(e.g.decls, "(declare-fun uf_stflag (Int Int) Bool)")
		}
		return bv(app(SBool, "uf_stflag", e.eval(args[0]).T, e.integer(args[1])))
	case "stwidth", "sthaswidth":
		need(1)
		for _, d := range [][2]string{{"uf_stwidth", "(Int) Int"}, {"uf_stwidth_ok", "(Int) Bool"}} {
			if !e.g.declared[d[0]] {
				e.g.declared[d[0]] = true
				e.g.decls = append(e.g.decls, "(declare-fun "+d[0]+" "+d[1]+")")
			}
		}
		if x.Fn == "stwidth" {
			return iv(app(SInt, "uf_stwidth", e.eval(args[0]).T))
		}
		return bv(app(SBool, "uf_stwidth_ok", e.eval(args[0]).T))
	case "istr":
		// istr(x): the string held by the interface value x (known where the code wrapped a string in it)
		need(1)
		e.g.ifaceDecls()
		return iv(app(SInt, "uf_ifstr", e.eval(args[0]).T))
	case "isstr", "isbytes":
		// the dynamic type of the interface value x is string / []byte
		need(1)
		e.g.ifaceDecls()
		tag := int64(1)
		if x.Fn == "isbytes" {
			tag = 2
		}
		return bv(Eq(app(SInt, "uf_iftype", e.eval(args[0]).T), IntLit(tag)))
	case "ibytes":
		// ibytes(x): the byte slice held by the interface value x
		need(1)
		e.g.ifaceDecls()
		v := e.eval(args[0]).T
		return SVal{T: app(SInt, "uf_ifbp", v), Ty: SType{K: KSlice, Elem: types.Universe.Lookup("byte").Type()}, Len: app(SInt, "uf_ifbn", v)}
	case "now":
		// now(p): the current value of a parameter that the code reassigns (in ghost assertions at call sites and in loop
		// clauses; the plain name is the value at entry)
		need(1)
		id, ok := args[0].(*EIdent)
		if !ok {
			e.fail("now() needs a parameter name")
		}
		if v, ok := e.vars["@now:"+id.Name]; ok {
			return v
		}
		return e.ident(id.Name)
	case "bytes":
		// bytes(s): the bytes of a string as a (virtual) byte slice, for len(), indexing and the segment predicates
		need(1)
		v := e.eval(args[0])
		if v.Ty.K != KInt {
			e.fail("bytes() needs a string")
		}
		return SVal{T: IntLit(0), Ty: SType{K: KSlice, Elem: types.Universe.Lookup("byte").Type()}, Len: e.g.strLen(v.T), Str: v.T}
	case "base":
		// the address of the first cell of a slice's backing array as seen through the slice
		need(1)
		v := e.eval(args[0])
		if v.Ty.K != KSlice {
			e.fail("base of non-slice")
		}
		return iv(v.T)
	case "same", "filled", "dseg", "mseg":
		// mseg(a, i, z, v, j, n):  a[i+t] is character j+t of the digit string "z zeros, then the decimal text of v", 0 <= t < n
		// dseg(a, i, v, j, n):  a[i+t] == uf_dchar(v, j+t) for 0 <= t < n - the bytes are characters j.. of the decimal text of v
		// same(a, i, b, j, n):  a[i+t] == b[j+t] for 0 <= t < n      filled(a, i, n, c):  a[i+t] == c for 0 <= t < n
		// a and b are slices of scalars; either may be written old(s): its cells are then read in the old state.
		// The quantified variable is the cell *address* in a's array, so that the trigger is a plain (select A addr):
		// a fact about a segment fires on every read of that array, and a goal about a segment skolemises to one read.
		if x.Fn == "filled" {
			need(4)
		} else if x.Fn == "mseg" {
			need(6)
		} else {
			need(5)
		}
		mchar := func(z, v, k Term) Term {
			e.g.dcharAxiom()
			return Ite(Lt(k, z), IntLit(48), app(SInt, "uf_dchar_2", v, Sub(k, z)))
		}
		sliceIn := func(a Expr) (SVal, *State) {
			st := e.cur
			if o, ok := a.(*EOld); ok {
				if e.old == nil {
					e.fail("old() not available here")
				}
				// as for old(...): inside, parameter names denote their entry values
				n := *e
				n.cur = e.old
				if len(e.entry) > 0 {
					n.vars = map[string]SVal{}
					for k, v := range e.vars {
						n.vars[k] = v
					}
					for k, v := range e.entry {
						n.vars[k] = v
					}
				}
				v := n.eval(o.X)
				if v.Ty.K != KSlice {
					e.fail("%s needs slices", x.Fn)
				}
				return v, e.old
			}
			v := e.eval(a)
			if v.Ty.K != KSlice {
				e.fail("%s needs slices", x.Fn)
			}
			return v, st
		}
		av, ast := sliceIn(args[0])
		if av.Str.S != "" {
			// the left-hand side is a string: quantify over the index, trigger strbyte(code, t)
			i := e.integer(args[1])
			var n Term
			var rhs func(t Term) Term
			switch x.Fn {
			case "same":
				bv2, bst := sliceIn(args[2])
				j := e.integer(args[3])
				n = e.integer(args[4])
				if bv2.Str.S != "" {
					rhs = func(t Term) Term { return e.g.strByte(bv2.Str, Add(j, Sub(t, i))) }
				} else {
					barr := e.g.arr(bst, cellKey(bv2.Ty.Elem), SInt)
					rhs = func(t Term) Term { return Select(barr, Add(bv2.T, Add(j, Sub(t, i))), SInt) }
				}
			case "mseg":
				z, v, j := e.integer(args[2]), e.integer(args[3]), e.integer(args[4])
				n = e.integer(args[5])
				rhs = func(t Term) Term { return mchar(z, v, Add(j, Sub(t, i))) }
			case "dseg":
				v, j := e.integer(args[2]), e.integer(args[3])
				n = e.integer(args[4])
				e.g.dcharAxiom()
				rhs = func(t Term) Term { return app(SInt, "uf_dchar_2", v, Add(j, Sub(t, i))) }
			default:
				n = e.integer(args[2])
				c := e.eval(args[3]).T
				rhs = func(t Term) Term { return c }
			}
			return bv(e.g.strSegFact(av.Str, i, Add(i, n), rhs))
		}
		es, sc := scalarSort(av.Ty.Elem)
		if !sc || e.g.L.sizeOf(av.Ty.Elem) != 1 {
			e.fail("%s: slices of one-cell scalars only", x.Fn)
		}
		key := cellKey(av.Ty.Elem)
		i := e.integer(args[1])
		e.g.nfresh++
		q := Term{fmt.Sprintf("sj_%d", e.g.nfresh), SInt}
		lo := Add(av.T, i)
		aarr := e.g.arr(ast, key, es)
		var n, rhs Term
		if x.Fn == "same" {
			bv2, bst := sliceIn(args[2])
			if cellKey(bv2.Ty.Elem) != key {
				e.fail("same: element types differ")
			}
			j := e.integer(args[3])
			n = e.integer(args[4])
			if bv2.Str.S != "" {
				rhs = e.g.strByte(bv2.Str, Add(j, Sub(q, lo)))
			} else {
				rhs = Select(e.g.arr(bst, key, es), Add(bv2.T, Add(j, Sub(q, lo))), es)
			}
		} else if x.Fn == "mseg" {
			z, v, j := e.integer(args[2]), e.integer(args[3]), e.integer(args[4])
			n = e.integer(args[5])
			rhs = mchar(z, v, Add(j, Sub(q, lo)))
		} else if x.Fn == "dseg" {
			v, j := e.integer(args[2]), e.integer(args[3])
			n = e.integer(args[4])
			e.g.dcharAxiom()
			rhs = app(SInt, "uf_dchar_2", v, Add(j, Sub(q, lo)))
		} else {
			n = e.integer(args[2])
			rhs = e.eval(args[3]).T
		}
		body := Implies(And(Le(lo, q), Lt(q, Add(lo, n))), Eq(Select(aarr, q, es), rhs))
		return bv(Term{fmt.Sprintf("(forall ((%s Int)) (! %s :pattern (%s)))", q.S, body.S, Select(aarr, q, es).S), SBool})
	case "extends":
		// extends(r, b): r is what append-like code returns for b - the same backing array (same first cell, same
		// capacity, at least b's length and within the capacity) or an array allocated after the pre-state (old) of this clause
		need(2)
		r, b := e.eval(args[0]), e.eval(args[1])
		if r.Ty.K != KSlice || b.Ty.K != KSlice {
			e.fail("extends of non-slices")
		}
		base := e.old
		if base == nil {
			base = e.cur
		}
		same := And(Eq(r.T, b.T), Eq(e.capOf(r), e.capOf(b)), Le(b.Len, r.Len), Le(r.Len, e.capOf(b)))
		// a new array lies between the allocation counter of the pre-state and the current one (so that a later
		// allocation cannot overlap it)
		return bv(Or(same, And(Ge(r.T, base.cnt), Le(Add(r.T, e.capOf(r)), e.cur.cnt))))
	case "has":
		need(2)
		return bv(Ne(app(SBV, "bvand", e.cond(args[0]), e.cond(args[1])), BVLit(0)))
	case "none":
		need(2)
		return bv(Eq(app(SBV, "bvand", e.cond(args[0]), e.cond(args[1])), BVLit(0)))
	case "only":
		need(2)
		return bv(Eq(app(SBV, "bvand", e.cond(args[0]), app(SBV, "bvnot", e.cond(args[1]))), BVLit(0)))
	case "flag":
		need(2)
		return cv(Ite(e.boolean(args[0]), e.cond(args[1]), BVLit(0)))
	case "bvdec":
		// c - 1 on the 32-bit Condition (wraps at zero, as Go does)
		need(1)
		return cv(app(SBV, "bvsub", e.cond(args[0]), BVLit(1)))
	case "bvint":
		need(1)
		return iv(app(SInt, "bv2nat", e.cond(args[0])))
	case "writable":
		need(1)
		return bv(Ge(e.integer(args[0]), IntLit(GEND)))
	case "isglobal":
		need(1)
		p := e.integer(args[0])
		return bv(And(Lt(IntLit(0), p), Lt(p, IntLit(GEND))))
	case "isfresh":
		// a pointer allocated after the pre-state (old) of this clause; for a slice: no cells at all, or a backing
		// array allocated after it
		need(1)
		if e.old == nil {
			e.fail("isfresh needs an old state")
		}
		if v := e.eval(args[0]); v.Ty.K == KSlice {
			return bv(Or(Eq(e.capOf(v), IntLit(0)), Ge(v.T, e.old.cnt)))
		}
		return bv(Ge(e.integer(args[0]), e.old.cnt))
	case "allocated":
		need(1)
		v := e.eval(args[0])
		sz := int64(1)
		if v.Ty.K == KRef && v.Ty.Elem != nil {
			sz = e.g.L.sizeOf(v.Ty.Elem)
		}
		return bv(And(Lt(IntLit(0), v.T), Le(Add(v.T, IntLit(sz)), e.cur.cnt)))
	case "val":
		need(1)
		v := e.eval(args[0])
		if v.Ty.K == KStruct && v.Ty.Elem != nil && isBigInt(v.Ty.Elem) && !e.g.L.layer1 && len(v.Flat) == 1 {
			return iv(v.Flat[0]) // a BigInt held by value (a by-value Decimal receiver): its one leaf is the abstract value
		}
		if v.Ty.K != KRef || v.Ty.Elem == nil {
			e.fail("val() needs a *BigInt")
		}
		return iv(e.g.bigVal(e.cur, v.T, v.Ty.Elem))
	case "wordskept":
		// the inline words behind a math/big header (if it is one) are what they were before the call
		need(1)
		if e.old == nil {
			e.fail("wordskept needs an old state")
		}
		v := e.eval(args[0])
		bk := e.g.load(e.old, "MathBig.backing", v.T, SInt)
		var cs []Term
		for off := int64(1); off <= 2; off++ {
			cs = append(cs, Eq(e.g.load(e.cur, "cell.uint", Add(bk, IntLit(off)), SInt), e.g.load(e.old, "cell.uint", Add(bk, IntLit(off)), SInt)))
		}
		return bv(Or(Eq(bk, IntLit(0)), And(cs...)))
	case "negzero":
		// a math/big value that is zero with its sign flag set (only (big.Int).GCD's cofactors can be)
		need(1)
		v := e.eval(args[0])
		if v.Ty.K != KRef || v.Ty.Elem == nil || !isMathBigInt(v.Ty.Elem) {
			e.fail("negzero() needs a *big.Int")
		}
		return bv(And(e.g.load(e.cur, "MathBig.nz", v.T, SBool), Eq(e.g.load(e.cur, "MathBig.val", v.T, SInt), IntLit(0))))
	case "backing":
		need(1)
		v := e.eval(args[0])
		return iv(e.g.load(e.cur, "MathBig.backing", v.T, SInt))
	case "rep":
		need(1)
		v := e.eval(args[0])
		return bv(e.g.bigRep(e.cur, v.T))
	case "unchanged":
		need(1)
		v := e.eval(args[0])
		if v.Ty.K != KRef || v.Ty.Elem == nil || e.old == nil {
			e.fail("unchanged() needs a reference and an old state")
		}
		var cs []Term
		for _, lf := range e.g.L.leaves(v.Ty.Elem, 0, "") {
			idx := Add(v.T, IntLit(lf.Off))
			cs = append(cs, Eq(e.g.load(e.cur, lf.Key, idx, lf.Sort), e.g.load(e.old, lf.Key, idx, lf.Sort)))
		}
		return bv(And(cs...))
	case "sameobj":
		// sameobj(a, b): all leaves of *a (current) equal all leaves of *b (old)
		need(2)
		a, b := e.eval(args[0]), e.eval(args[1])
		var cs []Term
		for _, lf := range e.g.L.leaves(a.Ty.Elem, 0, "") {
			cs = append(cs, Eq(e.g.load(e.cur, lf.Key, Add(a.T, IntLit(lf.Off)), lf.Sort), e.g.load(e.old, lf.Key, Add(b.T, IntLit(lf.Off)), lf.Sort)))
		}
		return bv(And(cs...))
	}
	if strings.HasPrefix(x.Fn, "uf_") {
		// uninterpreted specification function over integers (e.g. the result of a math/big operation
		// whose arithmetic meaning the proof does not need): declared on first use
		var ts []Term
		var sorts []string
		for _, a := range args {
			ts = append(ts, e.integer(a))
			sorts = append(sorts, "Int")
		}
		fname := fmt.Sprintf("%s_%d", x.Fn, len(args))
		switch x.Fn {
		case "uf_isnum", "uf_numval", "uf_utext", "uf_stext", "uf_ntext":
			e.g.numeralTheory()
		case "uf_dchar":
			e.g.dcharAxiom()
		case "uf_hasprefix":
			// for a literal prefix the uninterpreted function has its meaning: length and bytes
			lit, ok := &EStr{}, false
			if len(args) == 2 && isLitTerm(ts[1]) {
				var code int64
				if _, err := fmt.Sscan(ts[1].S, &code); err == nil {
					lit.S, ok = e.g.W.strOfCode(code)
				}
			}
			if ok && len(lit.S) <= 32 && !e.g.declared["hasprefix-def:"+ts[0].S+":"+lit.S] {
				e.g.declared["hasprefix-def:"+ts[0].S+":"+lit.S] = true
				if !e.g.declared[fname] {
					e.g.declared[fname] = true
					e.g.decls = append(e.g.decls, fmt.Sprintf("(declare-fun %s (%s) Int)", fname, strings.Join(sorts, " ")))
				}
				e.g.assume(Eq(Eq(app(SInt, fname, ts...), IntLit(1)), e.g.strHasPrefixConst(ts[0], lit.S)))
			}
		}
		if !e.g.declared[fname] {
			e.g.declared[fname] = true
			e.g.decls = append(e.g.decls, fmt.Sprintf("(declare-fun %s (%s) Int)", fname, strings.Join(sorts, " ")))
		}
		return iv(app(SInt, fname, ts...))
	}
	m := e.g.W.spec.Macros[x.Fn]
	if m == nil {
		e.fail("unknown function %s", x.Fn)
	}
	if len(args) != len(m.Params) {
		e.fail("%s expects %d arguments, got %d", x.Fn, len(m.Params), len(args))
	}
	if m.L1Only && !e.g.L.layer1 {
		return bv(TTrue)
	}
	if e.depth > 40 {
		e.fail("macro recursion too deep in %s", x.Fn)
	}
	vars := map[string]SVal{}
	for i, p := range m.Params {
		v := e.eval(args[i])
		want := e.parseType(p.Type)
		if want.sort() != v.T.Sort {
			e.fail("argument %s of %s: sort mismatch (%s)", p.Name, x.Fn, exprString(args[i]))
		}
		if want.K == KRef && v.Ty.K == KStruct && want.Elem != nil && v.Ty.Elem != nil && types.Identical(want.Elem, v.Ty.Elem) {
			// a struct held by value (a by-value receiver) where the macro expects a pointer to that struct: field
			// selection and val() work on the value itself
		} else if want.K == KRef {
			v.Ty = want
		} else if want.K == KSlice && v.Ty.K == KSlice {
		} else if want.K != v.Ty.K && !(want.K == KInt && v.Ty.K == KRef) {
			e.fail("argument %s of %s: kind mismatch", p.Name, x.Fn)
		}
		v.T = e.define(p.Name, v.T)
		vars[p.Name] = v
	}
	if m.Opaque && !e.g.reveal[m.Name] {
		// uninterpreted application over the scalar arguments and the contents of the referenced objects
		var ts []Term
		var sorts []string
		for _, p := range m.Params {
			v := vars[p.Name]
			if v.Ty.K == KRef && v.Ty.Elem != nil {
				for _, lf := range e.g.L.leaves(v.Ty.Elem, 0, "") {
					t := e.g.load(e.cur, lf.Key, Add(v.T, IntLit(lf.Off)), lf.Sort)
					ts = append(ts, t)
					sorts = append(sorts, lf.Sort.SMT())
				}
				continue
			}
			ts = append(ts, v.T)
			sorts = append(sorts, v.T.Sort.SMT())
		}
		want := e.parseType(m.Ret)
		fname := "opq_" + m.Name
		if !e.g.declared[fname] {
			e.g.declared[fname] = true
			e.g.decls = append(e.g.decls, fmt.Sprintf("(declare-fun %s (%s) %s)", fname, strings.Join(sorts, " "), want.sort().SMT()))
		}
		return SVal{T: app(want.sort(), fname, ts...), Ty: want}
	}
	// macro bodies see only their parameters (plus heap states)
	n := *e
	n.vars = vars
	n.depth = e.depth + 1
	r := n.eval(m.Body)
	want := e.parseType(m.Ret)
	if want.sort() != r.T.Sort {
		e.fail("macro %s returns wrong sort", x.Fn)
	}
	return r
}

// coerceCond turns an integer literal into a Condition literal when the other operand is a Condition.
func coerceCond(x Expr, v SVal, other SVal) SVal {
	if lit, ok := x.(*ELit); ok && other.Ty.K == KCond && v.Ty.K == KInt {
		n, _ := new(big.Int).SetString(lit.V, 0)
		return cv(BVLit(uint32(n.Uint64())))
	}
	return v
}

func (e *Env) cond(x Expr) Term {
	v := e.eval(x)
	if lit, ok := x.(*ELit); ok && v.Ty.K == KInt {
		n, _ := new(big.Int).SetString(lit.V, 0)
		return BVLit(uint32(n.Uint64()))
	}
	if v.Ty.K != KCond {
		e.fail("expected Condition in %s", exprString(x))
	}
	return v.T
}

// bigVal is the abstract value of the BigInt (or math/big.Int) at address a.
func (g *Gen) bigVal(st *State, a Term, t types.Type) Term {
	if isMathBigInt(t) {
		return g.load(st, "MathBig.val", a, SInt)
	}
	if !isBigInt(t) {
		panic("spec: val() of non-BigInt " + t.String())
	}
	if !g.L.layer1 {
		return g.load(st, "BigInt.val", a, SInt)
	}
	in := g.load(st, "BigInt._inner", a, SInt)
	w0 := g.load(st, "cell.uint", Add(a, IntLit(1)), SInt)
	w1 := g.load(st, "cell.uint", Add(a, IntLit(2)), SInt)
	mag := Add(w0, Mul(BigLit(pow2_64), w1))
	return Ite(Eq(in, IntLit(0)), mag, Ite(Eq(in, IntLit(negSentinelAddr)), Neg(mag), g.load(st, "MathBig.val", in, SInt)))
}

// bigRep is the representation invariant of a BigInt (layer 1); true in layer 2.
func (g *Gen) bigRep(st *State, a Term) Term {
	if !g.L.layer1 {
		return TTrue
	}
	in := g.load(st, "BigInt._inner", a, SInt)
	w0 := g.load(st, "cell.uint", Add(a, IntLit(1)), SInt)
	w1 := g.load(st, "cell.uint", Add(a, IntLit(2)), SInt)
	words := And(Le(IntLit(0), w0), Lt(w0, BigLit(pow2_64)), Le(IntLit(0), w1), Lt(w1, BigLit(pow2_64)))
	negNonZero := Implies(Eq(in, IntLit(negSentinelAddr)), Not(And(Eq(w0, IntLit(0)), Eq(w1, IntLit(0)))))
	// heap form: handle is a live (already allocated) math/big object
	heap := And(Ne(in, IntLit(0)), Ne(in, IntLit(negSentinelAddr)))
	noNegZero := Implies(heap, Not(And(g.load(st, "MathBig.nz", in, SBool), Eq(g.load(st, "MathBig.val", in, SInt), IntLit(0)))))
	return And(words, negNonZero, noNegZero, Ge(in, IntLit(0)), Lt(in, st.cnt))
}

// ---------------------------------------------------------------- printing

func exprString(x Expr) string {
	switch x := x.(type) {
	case *EStr:
		return strconv.Quote(x.S)
	case *ELit:
		return x.V
	case *EBool:
		return fmt.Sprint(x.V)
	case *ENil:
		return "nil"
	case *EIdent:
		return x.Name
	case *EOld:
		return "old(" + exprString(x.X) + ")"
	case *ELet:
		return "let " + x.Name + " = " + exprString(x.V) + " in " + exprString(x.Body)
	case *EForall:
		return "forall " + x.Var + " in " + exprString(x.Lo) + ".." + exprString(x.Hi) + ": " + exprString(x.Body)
	case *EUn:
		return x.Op + exprString(x.X)
	case *EBin:
		return "(" + exprString(x.X) + " " + x.Op + " " + exprString(x.Y) + ")"
	case *EField:
		return exprString(x.X) + "." + x.Name
	case *EIndex:
		return exprString(x.X) + "[" + exprString(x.I) + "]"
	case *ECall:
		var as []string
		for _, a := range x.Args {
			as = append(as, exprString(a))
		}
		return x.Fn + "(" + strings.Join(as, ", ") + ")"
	}
	return "?"
}
