package main

import (
	"fmt"
	"sort"
	"strings"
)

// Ctx accumulates SMT declarations and assumed facts in program order.
type Ctx struct {
	decls    []string
	declared map[string]bool
	facts    []string
	nfresh   int
	notes    []string // imprecision / unsupported notes
	defCache map[string]defEntry
}

type defEntry struct {
	t   Term
	idx int
}

func newCtx() *Ctx { return &Ctx{declared: map[string]bool{}, defCache: map[string]defEntry{}} }

// dropDefsAfter forgets cached definitions created after fresh-counter n (used when a discovery pass is rolled back).
func (c *Ctx) dropDefsAfter(n int) {
	for k, v := range c.defCache {
		if v.idx > n {
			delete(c.defCache, k)
		}
	}
}

func sanitize(s string) string {
	var sb strings.Builder
	for _, c := range s {
		if (c >= 'a' && c <= 'z') || (c >= 'A' && c <= 'Z') || (c >= '0' && c <= '9') || c == '_' {
			sb.WriteRune(c)
		} else {
			sb.WriteRune('_')
		}
	}
	return sb.String()
}

func (c *Ctx) declare(name string, sort string) {
	if c.declared[name] {
		return
	}
	c.declared[name] = true
	c.decls = append(c.decls, fmt.Sprintf("(declare-const %s %s)", name, sort))
}

// fresh declares a new constant of a scalar sort.
func (c *Ctx) fresh(hint string, s Sort) Term {
	c.nfresh++
	name := fmt.Sprintf("%s!%d", sanitize(hint), c.nfresh)
	c.declare(name, s.SMT())
	return Term{name, s}
}

// strLen: the byte length of the string with this code - an uninterpreted function of the code, exact for constants
// (constVal), related through slicing, concatenation and conversions; nothing else is known about a string.
func (c *Ctx) strLen(code Term) Term {
	if !c.declared["strlen"] {
		c.declared["strlen"] = true
		c.decls = append(c.decls, "(declare-fun strlen (Int) Int)")
	}
	l := app(SInt, "strlen", code)
	c.assume(And(Ge(l, IntLit(0)), Lt(l, BigLit(pow2big(62)))))
	return l
}

// strByte: byte i of the string with this code - strings are immutable, so their bytes are an uninterpreted function of
// (code, index), exact for short constants, related through slicing, concatenation, conversion from and to []byte and
// append(b, s...). Nothing is known about bytes outside [0, strlen).
func (c *Ctx) strByte(code, i Term) Term {
	if !c.declared["strbyte"] {
		c.declared["strbyte"] = true
		c.decls = append(c.decls, "(declare-fun strbyte (Int Int) Int)")
	}
	return app(SInt, "strbyte", code, i)
}

// strSegFact: for 0 <= t < n, strbyte(r, t) == rhs(t) - quantified over the index with the left-hand side as trigger
func (c *Ctx) strSegFact(r Term, lo, hi Term, rhs func(t Term) Term) Term {
	c.nfresh++
	t := Term{fmt.Sprintf("st_%d", c.nfresh), SInt}
	lhs := c.strByte(r, t)
	body := Implies(And(Le(lo, t), Lt(t, hi)), Eq(lhs, rhs(t)))
	return Term{fmt.Sprintf("(forall ((%s Int)) (! %s :pattern (%s)))", t.S, body.S, lhs.S), SBool}
}

func (c *Ctx) freshArray(hint string, elem Sort) Term {
	c.nfresh++
	name := fmt.Sprintf("%s!%d", sanitize(hint), c.nfresh)
	c.declare(name, elem.ArraySMT())
	return Term{name, elem}
}

func (c *Ctx) named(name string, s Sort) Term {
	c.declare(name, s.SMT())
	return Term{name, s}
}

func (c *Ctx) assume(t Term) {
	if t.S == "true" {
		return
	}
	c.facts = append(c.facts, t.S)
}

// define introduces a constant equal to t (conservative extension).
func (c *Ctx) define(hint string, t Term) Term {
	if len(t.S) < 24 {
		return t
	}
	if d, ok := c.defCache[t.S]; ok {
		return d.t
	}
	v := c.fresh(hint, t.Sort)
	c.assume(Eq(v, t))
	c.defCache[t.S] = defEntry{v, c.nfresh}
	return v
}

func (c *Ctx) note(format string, args ...interface{}) {
	c.notes = append(c.notes, fmt.Sprintf(format, args...))
}

// State is the symbolic machine state at a program point.
type State struct {
	heap map[string]Term // key -> current array (absent: the entry array of the context)
	cnt  Term            // allocation counter: every live object lies below it
}

func (s *State) clone() *State {
	n := &State{heap: make(map[string]Term, len(s.heap)), cnt: s.cnt}
	for k, v := range s.heap {
		n.heap[k] = v
	}
	return n
}

func sortedKeys(m map[string]Term) []string {
	var ks []string
	for k := range m {
		ks = append(ks, k)
	}
	sort.Strings(ks)
	return ks
}
