package main

import (
	"fmt"
	"sort"
	"strings"
)

// Ctx accumulates SMT declarations and assumed facts in program order.
type Ctx struct {
	decls    []string
	declared map[string]bool
	// scoped: facts that came from a witness assertion labelled <scope>w_<name>; they are handed only to obligations of
	// clauses whose label starts with <scope> (dropping a hypothesis elsewhere is sound and keeps unrelated queries small)
	scoped   map[string]string
	facts    []string
	nfresh   int
	notes    []string // imprecision / unsupported notes
	defCache map[string]defEntry
}

type defEntry struct {
	t   Term
	idx int
}

func newCtx() *Ctx { return &Ctx{declared: map[string]bool{}, defCache: map[string]defEntry{}} }

// dropDefsAfter forgets cached definitions created after fresh-counter n (used when a discovery pass is rolled back).
func (c *Ctx) dropDefsAfter(n int) {
	for k, v := range c.defCache {
		if v.idx > n {
			delete(c.defCache, k)
		}
	}
}

func sanitize(s string) string {
	var sb strings.Builder
	for _, c := range s {
		if (c >= 'a' && c <= 'z') || (c >= 'A' && c <= 'Z') || (c >= '0' && c <= '9') || c == '_' {
			sb.WriteRune(c)
		} else {
			sb.WriteRune('_')
		}
	}
	return sb.String()
}

func (c *Ctx) declare(name string, sort string) {
	if c.declared[name] {
		return
	}
	c.declared[name] = true
	c.decls = append(c.decls, fmt.Sprintf("(declare-const %s %s)", name, sort))
}

// fresh declares a new constant of a scalar sort.
func (c *Ctx) fresh(hint string, s Sort) Term {
	c.nfresh++
	name := fmt.Sprintf("%s!%d", sanitize(hint), c.nfresh)
	c.declare(name, s.SMT())
	return Term{name, s}
}

// strLen: the byte length of the string with this code - an uninterpreted function of the code, exact for constants
// (constVal), related through slicing, concatenation and conversions; nothing else is known about a string.
func (c *Ctx) strLen(code Term) Term {
	if !c.declared["strlen"] {
		c.declared["strlen"] = true
		c.decls = append(c.decls, "(declare-fun strlen (Int) Int)")
	}
	l := app(SInt, "strlen", code)
	c.assume(And(Ge(l, IntLit(0)), Lt(l, BigLit(pow2big(62)))))
	return l
}

// strByte: byte i of the string with this code - strings are immutable, so their bytes are an uninterpreted function of
// (code, index), exact for short constants, related through slicing, concatenation, conversion from and to []byte and
// append(b, s...). Nothing is known about bytes outside [0, strlen).
func (c *Ctx) strByte(code, i Term) Term {
	if !c.declared["strbyte"] {
		c.declared["strbyte"] = true
		c.decls = append(c.decls, "(declare-fun strbyte (Int Int) Int)")
	}
	return app(SInt, "strbyte", code, i)
}

// strSegFact: for 0 <= t < n, strbyte(r, t) == rhs(t) - quantified over the index with the left-hand side as trigger
func (c *Ctx) strSegFact(r Term, lo, hi Term, rhs func(t Term) Term) Term {
	c.nfresh++
	t := Term{fmt.Sprintf("st_%d", c.nfresh), SInt}
	lhs := c.strByte(r, t)
	body := Implies(And(Le(lo, t), Lt(t, hi)), Eq(lhs, rhs(t)))
	return Term{fmt.Sprintf("(forall ((%s Int)) (! %s :pattern (%s)))", t.S, body.S, lhs.S), SBool}
}

// strSegFactP: for lo <= t < hi, p(t) - a property of the bytes of one string, trigger strbyte(code, t)
func (c *Ctx) strSegFactP(code Term, lo, hi Term, p func(t Term) Term) Term {
	c.nfresh++
	t := Term{fmt.Sprintf("st_%d", c.nfresh), SInt}
	body := Implies(And(Le(lo, t), Lt(t, hi)), p(t))
	return Term{fmt.Sprintf("(forall ((%s Int)) (! %s :pattern (%s)))", t.S, body.S, c.strByte(code, t).S), SBool}
}

// strEqConst: the string with this code equals the constant - length and bytes (exact; the codes themselves are compared
// only between two non-constant strings)
func (c *Ctx) strEqConst(code Term, lit string) Term {
	cs := []Term{Eq(c.strLen(code), IntLit(int64(len(lit))))}
	for k := 0; k < len(lit); k++ {
		cs = append(cs, Eq(c.strByte(code, IntLit(int64(k))), IntLit(int64(lit[k]))))
	}
	return And(cs...)
}

// strHasPrefixConst: strings.HasPrefix(code, lit) for a constant prefix
func (c *Ctx) strHasPrefixConst(code Term, lit string) Term {
	cs := []Term{Ge(c.strLen(code), IntLit(int64(len(lit))))}
	for k := 0; k < len(lit); k++ {
		cs = append(cs, Eq(c.strByte(code, IntLit(int64(k))), IntLit(int64(lit[k]))))
	}
	return And(cs...)
}

// numeralTheory declares the text <-> number vocabulary and its axioms (once per query context):
//
//	uf_isnum(s) == 1     s is a base-10 numeral as strconv.ParseInt(s, 10, n) and (big.Int).SetString(s, 10) read it:
//	                     an optional sign, then one or more ASCII digits
//	uf_numval(s)         its value
//	uf_utext(s, z, n)    s is z characters '0' followed by the decimal text of n >= 0   (uf_dchar(n, k), nd10(n) of them)
//	uf_stext(s, g, n)    s is the sign character g ('+' or '-') followed by the decimal text of n >= 0
//
// Assumed (decimal notation; the parsers of strconv and math/big read what their formatters write):
// the two introduction rules (the bytes say so) and the two elimination rules (such a text is a numeral with that value).
func (c *Ctx) numeralTheory() {
	if c.declared["numeral-theory"] {
		return
	}
	c.declared["numeral-theory"] = true
	c.declared["model-note:numerals"] = true
	for _, d := range []string{"uf_isnum_1 (Int) Int", "uf_numval_1 (Int) Int", "uf_utext_3 (Int Int Int) Int", "uf_stext_3 (Int Int Int) Int", "uf_ntext_4 (Int Int Int Int) Int", "uf_dchar_2 (Int Int) Int", "strbyte (Int Int) Int", "strlen (Int) Int"} {
		name := strings.SplitN(d, " ", 2)[0]
		if !c.declared[name] {
			c.declared[name] = true
			c.decls = append(c.decls, "(declare-fun "+d+")")
		}
	}
	ax := []string{
		// introduction
		"(forall ((bv!s Int) (bv!z Int) (bv!n Int)) (! (=> (and (>= bv!n 0) (>= bv!z 0) (= (strlen bv!s) (+ bv!z (nd10 bv!n))) (forall ((bv!t Int)) (=> (and (<= 0 bv!t) (< bv!t bv!z)) (= (strbyte bv!s bv!t) 48))) (forall ((bv!t Int)) (=> (and (<= 0 bv!t) (< bv!t (nd10 bv!n))) (= (strbyte bv!s (+ bv!z bv!t)) (uf_dchar_2 bv!n bv!t))))) (= (uf_utext_3 bv!s bv!z bv!n) 1)) :pattern ((uf_utext_3 bv!s bv!z bv!n))))",
		"(forall ((bv!s Int) (bv!g Int) (bv!n Int)) (! (=> (and (>= bv!n 0) (or (= bv!g 43) (= bv!g 45)) (= (strlen bv!s) (+ 1 (nd10 bv!n))) (= (strbyte bv!s 0) bv!g) (forall ((bv!t Int)) (=> (and (<= 0 bv!t) (< bv!t (nd10 bv!n))) (= (strbyte bv!s (+ 1 bv!t)) (uf_dchar_2 bv!n bv!t))))) (= (uf_stext_3 bv!s bv!g bv!n) 1)) :pattern ((uf_stext_3 bv!s bv!g bv!n))))",
		// general numeral: an optional sign character g (0: none), z zeros, the decimal text of n
		"(forall ((bv!s Int) (bv!g Int) (bv!z Int) (bv!n Int)) (! (=> (and (>= bv!n 0) (>= bv!z 0) (or (= bv!g 0) (= bv!g 43) (= bv!g 45)) (= (strlen bv!s) (+ (ite (= bv!g 0) 0 1) bv!z (nd10 bv!n))) (=> (not (= bv!g 0)) (= (strbyte bv!s 0) bv!g)) (forall ((bv!t Int)) (=> (and (<= 0 bv!t) (< bv!t bv!z)) (= (strbyte bv!s (+ (ite (= bv!g 0) 0 1) bv!t)) 48))) (forall ((bv!t Int)) (=> (and (<= 0 bv!t) (< bv!t (nd10 bv!n))) (= (strbyte bv!s (+ (ite (= bv!g 0) 0 1) bv!z bv!t)) (uf_dchar_2 bv!n bv!t))))) (= (uf_ntext_4 bv!s bv!g bv!z bv!n) 1)) :pattern ((uf_ntext_4 bv!s bv!g bv!z bv!n))))",
		"(forall ((bv!s Int) (bv!g Int) (bv!z Int) (bv!n Int)) (! (=> (= (uf_ntext_4 bv!s bv!g bv!z bv!n) 1) (and (= (uf_isnum_1 bv!s) 1) (= (uf_numval_1 bv!s) (ite (= bv!g 45) (- bv!n) bv!n)))) :pattern ((uf_ntext_4 bv!s bv!g bv!z bv!n))))",
		// a numeral is nothing else: it is not empty, and each of its characters is a digit except a sign in front
		"(forall ((bv!s Int)) (! (=> (= (uf_isnum_1 bv!s) 1) (and (>= (strlen bv!s) 1) (forall ((bv!t Int)) (! (=> (and (<= 0 bv!t) (< bv!t (strlen bv!s))) (or (and (<= 48 (strbyte bv!s bv!t)) (<= (strbyte bv!s bv!t) 57)) (and (= bv!t 0) (or (= (strbyte bv!s 0) 43) (= (strbyte bv!s 0) 45))))) :pattern ((strbyte bv!s bv!t)))))) :pattern ((uf_isnum_1 bv!s))))",
		// ... and it ends in a digit (handed only to the clauses labelled rej_end*: it creates a last-character term for every numeral)
		"(forall ((bv!s Int)) (! (=> (= (uf_isnum_1 bv!s) 1) (and (<= 48 (strbyte bv!s (- (strlen bv!s) 1))) (<= (strbyte bv!s (- (strlen bv!s) 1)) 57))) :pattern ((uf_isnum_1 bv!s))))",
		// elimination
		"(forall ((bv!s Int) (bv!z Int) (bv!n Int)) (! (=> (= (uf_utext_3 bv!s bv!z bv!n) 1) (and (= (uf_isnum_1 bv!s) 1) (= (uf_numval_1 bv!s) bv!n))) :pattern ((uf_utext_3 bv!s bv!z bv!n))))",
		"(forall ((bv!s Int) (bv!g Int) (bv!n Int)) (! (=> (= (uf_stext_3 bv!s bv!g bv!n) 1) (and (= (uf_isnum_1 bv!s) 1) (= (uf_numval_1 bv!s) (ite (= bv!g 45) (- bv!n) bv!n)))) :pattern ((uf_stext_3 bv!s bv!g bv!n))))",
	}
	for _, a := range ax {
		if strings.Contains(a, "(=> (= (uf_isnum_1 bv!s) 1) (and (<= 48 (strbyte bv!s (- (strlen bv!s) 1)))") {
			if c.scoped == nil {
				c.scoped = map[string]string{}
			}
			c.scoped[a] = "rej_end"
		}
		c.assume(Term{a, SBool})
	}
	c.dcharAxiom()
}

// dcharAxiom: the characters of a decimal text are digits (assumed with the meaning of uf_dchar)
func (c *Ctx) dcharAxiom() {
	if c.declared["dchar-axiom"] {
		return
	}
	c.declared["dchar-axiom"] = true
	c.declared["model-note:numerals"] = true
	if !c.declared["uf_dchar_2"] {
		c.declared["uf_dchar_2"] = true
		c.decls = append(c.decls, "(declare-fun uf_dchar_2 (Int Int) Int)")
	}
	c.assume(Term{"(forall ((bv!n Int) (bv!k Int)) (! (=> (and (>= bv!n 0) (<= 0 bv!k) (< bv!k (nd10 bv!n))) (and (<= 48 (uf_dchar_2 bv!n bv!k)) (<= (uf_dchar_2 bv!n bv!k) 57))) :pattern ((uf_dchar_2 bv!n bv!k))))", SBool})
}

func (c *Ctx) freshArray(hint string, elem Sort) Term {
	c.nfresh++
	name := fmt.Sprintf("%s!%d", sanitize(hint), c.nfresh)
	c.declare(name, elem.ArraySMT())
	return Term{name, elem}
}

func (c *Ctx) named(name string, s Sort) Term {
	c.declare(name, s.SMT())
	return Term{name, s}
}

func (c *Ctx) assume(t Term) {
	if t.S == "true" {
		return
	}
	c.facts = append(c.facts, t.S)
}

// define introduces a constant equal to t (conservative extension).
func (c *Ctx) define(hint string, t Term) Term {
	if len(t.S) < 24 {
		return t
	}
	if d, ok := c.defCache[t.S]; ok {
		return d.t
	}
	v := c.fresh(hint, t.Sort)
	c.assume(Eq(v, t))
	c.defCache[t.S] = defEntry{v, c.nfresh}
	return v
}

func (c *Ctx) note(format string, args ...interface{}) {
	c.notes = append(c.notes, fmt.Sprintf(format, args...))
}

// State is the symbolic machine state at a program point.
type State struct {
	heap map[string]Term // key -> current array (absent: the entry array of the context)
	cnt  Term            // allocation counter: every live object lies below it
}

func (s *State) clone() *State {
	n := &State{heap: make(map[string]Term, len(s.heap)), cnt: s.cnt}
	for k, v := range s.heap {
		n.heap[k] = v
	}
	return n
}

func sortedKeys(m map[string]Term) []string {
	var ks []string
	for k := range m {
		ks = append(ks, k)
	}
	sort.Strings(ks)
	return ks
}
