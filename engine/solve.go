package main

import (
	"bytes"
	"context"
	"fmt"
	"os"
	"os/exec"
	"path/filepath"
	"regexp"
	"sort"
	"strings"
	"sync"
	"time"
)

// subterms returns the distinct applications "(fn ARG)" found in text, as ARG strings.
// boundVarRe: names of quantified variables; a term that mentions one is not ground and gets no lemma instance
var boundVarRe = regexp.MustCompile(`bv![a-z]|\b(sj|aj|st|sb|ri|fi)_[0-9]+|\bq_[A-Za-z0-9]+_[0-9]+`)

func subterms(text, fn string) []string {
	seen := map[string]bool{}
	var out []string
	pat := "(" + fn + " "
	i := 0
	for {
		j := strings.Index(text[i:], pat)
		if j < 0 {
			break
		}
		start := i + j + len(pat)
		// parse one s-expression
		k := start
		if text[k] == '(' {
			d := 0
			for ; k < len(text); k++ {
				if text[k] == '(' {
					d++
				} else if text[k] == ')' {
					d--
					if d == 0 {
						k++
						break
					}
				}
			}
		} else {
			for k < len(text) && text[k] != ' ' && text[k] != ')' {
				k++
			}
		}
		arg := text[start:k]
		if !seen[arg] && !strings.Contains(arg, "q_") && !boundVarRe.MatchString(arg) {
			seen[arg] = true
			out = append(out, arg)
		}
		i = start
	}
	return out
}

// subterms2 returns the distinct argument pairs of applications "(fn A B)".
func subterms2(text, fn string) [][2]string {
	seen := map[string]bool{}
	var out [][2]string
	pat := "(" + fn + " "
	i := 0
	sexp := func(k int) int {
		if text[k] == '(' {
			d := 0
			for ; k < len(text); k++ {
				if text[k] == '(' {
					d++
				} else if text[k] == ')' {
					d--
					if d == 0 {
						return k + 1
					}
				}
			}
			return k
		}
		for k < len(text) && text[k] != ' ' && text[k] != ')' {
			k++
		}
		return k
	}
	for {
		j := strings.Index(text[i:], pat)
		if j < 0 {
			break
		}
		start := i + j + len(pat)
		k := sexp(start)
		a := text[start:k]
		k2 := sexp(k + 1)
		b := text[k+1 : k2]
		key := a + " " + b
		if !seen[key] && !strings.Contains(key, "q_") && !boundVarRe.MatchString(key) {
			seen[key] = true
			out = append(out, [2]string{a, b})
		}
		i = start
	}
	return out
}

// lemmaInstances generates ground instances of the pow10/nd10 lemma library
// (DESIGN section 4) for the terms that occur in the query text.
func lemmaInstances(text string, level int) []string {
	var out []string
	add := func(f string, a ...interface{}) { out = append(out, fmt.Sprintf(f, a...)) }
	// Euclidean division by a symbolic divisor: defining property per occurrence
	dm := map[string][2]string{}
	for _, p := range append(subterms2(text, "edq"), subterms2(text, "edr")...) {
		dm[p[0]+" "+p[1]] = p
	}
	var dmk []string
	for k := range dm {
		dmk = append(dmk, k)
	}
	sort.Strings(dmk)
	for _, k := range dmk {
		a, b := dm[k][0], dm[k][1]
		add("(=> (> %s 0) (and (= %s (+ (* (edq %s %s) %s) (edr %s %s))) (<= 0 (edr %s %s)) (< (edr %s %s) %s)))", b, a, a, b, b, a, b, a, b, a, b, b)
		add("(=> (< %s 0) (and (= %s (+ (* (edq %s %s) %s) (edr %s %s))) (<= 0 (edr %s %s)) (< (edr %s %s) (- %s))))", b, a, a, b, b, a, b, a, b, a, b, b)
		add("(=> (and (> %s 0) (>= %s 0)) (and (>= (edq %s %s) 0) (<= (edq %s %s) %s)))", b, a, a, b, a, b, a)
	}
	p10 := subterms(text, "pow10")
	nds := subterms(text, "nd10")
	pset := map[string]bool{}
	for _, t := range p10 {
		pset[t] = true
	}
	addP := func(t string) {
		if !pset[t] {
			pset[t] = true
			p10 = append(p10, t)
		}
	}
	for _, v := range nds {
		add("(>= (nd10 %s) 1)", v)
		add("(<= (nd10 %s) 1000000000)", v) // assumption A-size: fewer than 10^9 digits per coefficient
		add("(=> (= %s 0) (= (nd10 %s) 1))", v, v)
		add("(=> (> %s 0) (and (<= (pow10 (- (nd10 %s) 1)) %s) (< %s (pow10 (nd10 %s)))))", v, v, v, v, v)
		addP(fmt.Sprintf("(- (nd10 %s) 1)", v))
		addP(fmt.Sprintf("(nd10 %s)", v))
		addP(fmt.Sprintf("(+ (nd10 %s) 1)", v))
	}
	// literal values
	lit := int64(1)
	for i := 0; i <= 19; i++ {
		if i <= 4 || pset[fmt.Sprint(i)] {
			add("(= (pow10 %d) %d)", i, lit)
		}
		if i < 18 {
			lit *= 10
		}
	}
	if len(p10) > 60 {
		p10 = p10[:60]
	}
	for _, t := range p10 {
		add("(=> (>= %s 0) (>= (pow10 %s) 1))", t, t)
		if !isAllDigits(t) {
			add("(=> (= %s 0) (= (pow10 %s) 1))", t, t)
			add("(=> (= %s 1) (= (pow10 %s) 10))", t, t)
		}
	}
	related := func(a, b string) bool { return true }
	if level == 1 {
		rel := cooccur(text, p10, nds)
		related = func(a, b string) bool { return rel[a+"\x00"+b] || rel[b+"\x00"+a] }
	}
	for i, a := range p10 {
		for j, b := range p10 {
			if i == j || !related(a, b) {
				continue
			}
			add("(=> (and (<= 0 %s) (< %s %s)) (<= (* 10 (pow10 %s)) (pow10 %s)))", a, a, b, a, b)
			add("(=> (and (<= 0 %s) (= %s (+ %s 1))) (= (pow10 %s) (* 10 (pow10 %s))))", a, b, a, b, a)
		}
	}
	for _, v := range nds {
		for _, t := range p10 {
			if !related("nd:"+v, t) {
				continue
			}
			add("(=> (and (>= %s 0) (>= %s (pow10 %s))) (>= (nd10 %s) (+ %s 1)))", t, v, t, v, t)
			add("(=> (and (>= %s 1) (>= %s 0) (< %s (pow10 %s))) (<= (nd10 %s) %s))", t, v, v, t, v, t)
		}
	}
	for i, v := range nds {
		for j, w := range nds {
			if i != j && related("nd:"+v, "nd:"+w) {
				add("(=> (and (<= 0 %s) (<= %s %s)) (<= (nd10 %s) (nd10 %s)))", v, v, w, v, w)
			}
		}
	}
	// pow2 / bitlen
	p2 := subterms(text, "pow2")
	p2set := map[string]bool{}
	for _, t := range p2 {
		p2set[t] = true
	}
	for _, v := range subterms(text, "bitlen") {
		for _, t := range []string{fmt.Sprintf("(- (bitlen %s) 1)", v), fmt.Sprintf("(bitlen %s)", v)} {
			if !p2set[t] {
				p2set[t] = true
				p2 = append(p2, t)
			}
		}
	}
	for _, t := range p2 {
		add("(=> (>= %s 0) (>= (pow2 %s) 1))", t, t)
	}
	add("(= (pow2 0) 1)")
	add("(= (pow2 1) 2)")
	add("(= (pow2 64) 18446744073709551616)")
	add("(= (pow2 128) 340282366920938463463374607431768211456)")
	for i, a := range p2 {
		for j, b := range p2 {
			if i == j {
				continue
			}
			add("(=> (and (<= 0 %s) (< %s %s)) (<= (* 2 (pow2 %s)) (pow2 %s)))", a, a, b, a, b)
			add("(=> (and (<= 0 %s) (= %s (+ %s 1))) (= (pow2 %s) (* 2 (pow2 %s))))", a, b, a, b, a)
			if i < j {
				add("(=> (= %s %s) (= (pow2 %s) (pow2 %s)))", a, b, a, b)
			}
		}
	}
	for _, v := range subterms(text, "bitlen") {
		add("(>= (bitlen %s) 0)", v)
		add("(=> (= %s 0) (= (bitlen %s) 0))", v, v)
		add("(=> (> %s 0) (and (>= (bitlen %s) 1) (<= (pow2 (- (bitlen %s) 1)) %s) (< %s (pow2 (bitlen %s)))))", v, v, v, v, v, v)
		add("(=> (and (>= %s 0) (< %s 18446744073709551616)) (<= (bitlen %s) 64))", v, v, v)
	}
	return out
}

// cooccur relates pow10/nd10 terms that occur in the same assertion (or are the
// n-1 / n / n+1 companions of one nd10 term): level-1 instantiation generates
// pair lemmas only for related terms; level 2 generates all pairs.
func cooccur(text string, p10, nds []string) map[string]bool {
	rel := map[string]bool{}
	link := func(ys []string) {
		seen := map[string]bool{}
		var xs []string
		for _, y := range ys {
			if !seen[y] {
				seen[y] = true
				xs = append(xs, y)
			}
		}
		if len(xs) > 16 {
			return
		}
		for _, a := range xs {
			for _, b := range xs {
				if a != b {
					rel[a+"\x00"+b] = true
				}
			}
		}
	}
	// constants defined as (= NAME (pow10 X)) or (= NAME (nd10 X)) stand for that term wherever they occur
	lines := strings.Split(text, "\n")
	alias := map[string][]string{}
	for _, line := range lines {
		if !strings.HasPrefix(line, "(assert (= ") {
			continue
		}
		rest := line[len("(assert (= "):]
		sp := strings.IndexByte(rest, ' ')
		if sp < 0 || strings.HasPrefix(rest, "(") {
			continue
		}
		name := rest[:sp]
		def := rest[sp+1:]
		if strings.HasPrefix(def, "(pow10 ") {
			if ts := subterms(def[:len(def)], "pow10"); len(ts) > 0 {
				alias[name] = append(alias[name], ts[0])
			}
		}
	}
	for _, line := range lines {
		var xs []string
		for _, t := range subterms(line, "pow10") {
			xs = append(xs, t)
		}
		if len(alias) > 0 {
			for _, tok := range strings.FieldsFunc(line, func(r rune) bool { return r == ' ' || r == '(' || r == ')' }) {
				if as, ok := alias[tok]; ok {
					xs = append(xs, as...)
				}
			}
		}
		for _, v := range subterms(line, "nd10") {
			xs = append(xs, "nd:"+v, fmt.Sprintf("(- (nd10 %s) 1)", v), fmt.Sprintf("(nd10 %s)", v), fmt.Sprintf("(+ (nd10 %s) 1)", v))
		}
		link(xs)
	}
	for _, v := range nds {
		link([]string{"nd:" + v, fmt.Sprintf("(- (nd10 %s) 1)", v), fmt.Sprintf("(nd10 %s)", v), fmt.Sprintf("(+ (nd10 %s) 1)", v)})
	}
	return rel
}

func (o *Obligation) level() int {
	if o.Level == 0 {
		return 2
	}
	return o.Level
}

// Query renders the SMT-LIB text of an obligation.
func (o *Obligation) Query(forCvc5 bool) string {
	var sb strings.Builder
	if forCvc5 {
		sb.WriteString("(set-option :produce-models true)\n(set-logic ALL)\n")
	}
	sb.WriteString(smtPrelude())
	g := o.gen
	for _, d := range g.decls[:o.NDecls] {
		sb.WriteString(d)
		sb.WriteString("\n")
	}
	var body strings.Builder
	for _, f := range g.facts[:o.NFacts] {
		if sc, ok := g.scoped[f]; ok && !o.inScope(sc) {
			continue
		}
		body.WriteString("(assert ")
		body.WriteString(f)
		body.WriteString(")\n")
	}
	for _, f := range o.Extra {
		body.WriteString("(assert ")
		body.WriteString(f)
		body.WriteString(")\n")
	}
	if !o.ExpectSat {
		body.WriteString("(assert (not ")
		body.WriteString(Implies(o.Guard, o.Goal).S)
		body.WriteString("))\n")
	} else if o.Guard.S != "" && o.Guard.S != "true" {
		// cover: the program point is reachable under everything assumed so far
		body.WriteString("(assert ")
		body.WriteString(o.Guard.S)
		body.WriteString(")\n")
	}
	text := body.String()
	for _, inst := range lemmaInstances(text, o.level()) {
		sb.WriteString("(assert ")
		sb.WriteString(inst)
		sb.WriteString(")\n")
	}
	sb.WriteString(text)
	sb.WriteString("(check-sat)\n")
	return sb.String()
}

type solverSpec struct {
	name string
	args func(file string, timeout time.Duration) []string
}

var solvers = map[string]solverSpec{
	"z3-new": {"z3-new", func(f string, t time.Duration) []string {
		return []string{fmt.Sprintf("-T:%d", int(t.Seconds())), "-smt2", f}
	}},
	"z3-new-a2": {"z3-new", func(f string, t time.Duration) []string {
		return []string{fmt.Sprintf("-T:%d", int(t.Seconds())), "smt.arith.solver=2", "-smt2", f}
	}},
	// for goals about segments of byte slices (quantifiers with explicit triggers only): e-matching alone, case splits
	// in assertion order - decides in a second what the default configuration does not decide in a minute
	"z3-new-q": {"z3-new", func(f string, t time.Duration) []string {
		return []string{fmt.Sprintf("-T:%d", int(t.Seconds())), "smt.auto_config=false", "smt.mbqi=false", "smt.case_split=3", "-smt2", f}
	}},
	"z3": {"z3", func(f string, t time.Duration) []string {
		return []string{fmt.Sprintf("-T:%d", int(t.Seconds())), "-smt2", f}
	}},
	"cvc5": {"cvc5", func(f string, t time.Duration) []string {
		return []string{fmt.Sprintf("--tlimit=%d", t.Milliseconds()), "--nl-ext-tplanes", f}
	}},
}

func runSolver(solver, file string, timeout time.Duration) (string, string, float64) {
	return runSolverCtx(context.Background(), solver, file, timeout)
}

func runSolverCtx(parent context.Context, solver, file string, timeout time.Duration) (string, string, float64) {
	sp := solvers[solver]
	ctx, cancel := context.WithTimeout(parent, timeout+3*time.Second)
	defer cancel()
	start := time.Now()
	cmd := exec.CommandContext(ctx, sp.name, sp.args(file, timeout)...)
	var out bytes.Buffer
	cmd.Stdout = &out
	cmd.Stderr = &out
	cmd.Run()
	el := time.Since(start).Seconds()
	first := strings.TrimSpace(strings.SplitN(out.String(), "\n", 2)[0])
	switch first {
	case "unsat", "sat", "unknown":
		return first, out.String(), el
	}
	if strings.Contains(out.String(), "timeout") || ctx.Err() != nil {
		return "timeout", out.String(), el
	}
	return "error", out.String(), el
}

var outDir = "/verif/out/vc"

func obFile(o *Obligation, suffix string) string {
	n := sanitize(o.Name)
	if len(n) > 150 {
		n = n[:150]
	}
	return filepath.Join(outDir, n+suffix+".smt2")
}

// solve discharges one obligation with the portfolio.
func solve(o *Obligation, timeout time.Duration, portfolio []string) {
	if o.ExpectSat || o.Level != 0 {
		solveAt(o, timeout, portfolio)
		return
	}
	// Race two instantiation levels on the primary solver: level 1 generates pair
	// lemmas for related terms only (small query), level 2 all pairs. The first
	// unsat wins. If neither proves it, the other solvers try the level-2 query.
	start := time.Now()
	files := [2]string{obFile(o, ".l1"), obFile(o, "")}
	for i, lvl := range []int{1, 2} {
		o.Level = lvl
		os.WriteFile(files[i], []byte(o.Query(false)), 0o644)
	}
	o.Level = 0
	segments := false
	if b, err := os.ReadFile(files[0]); err == nil && (bytes.Contains(b, []byte("(forall ((sj_")) || bytes.Contains(b, []byte("(forall ((aj_")) || bytes.Contains(b, []byte("(forall ((st_")) || bytes.Contains(b, []byte("(forall ((bv!"))) {
		segments = true
	}
	type res struct {
		lvl    int
		solver string
		r, out string
	}
	// racers: the primary solver in two arithmetic configurations x two instantiation levels
	type racer struct {
		solver string
		lvl    int
	}
	racers := []racer{{portfolio[0], 1}, {portfolio[0], 2}}
	if portfolio[0] == "z3-new" {
		racers = append(racers, racer{"z3-new-a2", 1}, racer{"z3-new-a2", 2})
		// z3 4.8.12 on the small query: its nonlinear core decides some product/monomial goals at once
		// on which 5.1.0 wanders (and the other way round for wrap-around goals)
		racers = append(racers, racer{"z3", 1})
		if segments {
			// goals over byte segments are decided by the e-matching configuration or not at all in most cases: it goes
			// first, and the others start only when it has not answered within two seconds (five more processes per
			// obligation on a loaded machine slow everything down)
			racers = append([]racer{{"z3-new-q", 1}}, racers...)
		}
	}
	headStart := 250 * time.Millisecond
	if segments {
		headStart = 2 * time.Second
	}
	ctx, cancel := context.WithCancel(context.Background())
	ch := make(chan res, len(racers))
	for i, rc := range racers {
		go func(i int, rc racer) {
			if i > 0 {
				// most obligations are decided by the first racer within milliseconds: give it a head start
				select {
				case <-ctx.Done():
					ch <- res{rc.lvl, rc.solver, "cancelled", ""}
					return
				case <-time.After(headStart):
				}
			}
			r, out, _ := runSolverCtx(ctx, rc.solver, files[rc.lvl-1], timeout)
			ch <- res{rc.lvl, rc.solver, r, out}
		}(i, rc)
	}
	var l2 res
	anySat := false
	for got := 0; got < len(racers); got++ {
		r := <-ch
		if r.r == "unsat" {
			cancel()
			o.Status, o.Backend, o.Output, o.LevelUsed = "proved", r.solver, r.out, r.lvl
			o.Time = time.Since(start).Seconds()
			return
		}
		if r.lvl == 2 {
			if r.r == "sat" {
				anySat = true
				l2 = r
			} else if l2.r == "" {
				l2 = r
			}
		}
	}
	cancel()
	o.Backend, o.Output, o.LevelUsed = l2.solver, l2.out, 2
	if anySat {
		o.Status = "failed"
		o.Time = time.Since(start).Seconds()
		return
	}
	o.Status = l2.r
	if len(portfolio) > 1 {
		o.Level = 2
		solveAt(o, timeout, portfolio[1:])
		o.Level = 0
	}
	o.Time = time.Since(start).Seconds()
}

func solveAt(o *Obligation, timeout time.Duration, portfolio []string) {
	if o.ExpectSat && timeout > 4*time.Second {
		// covers are satisfiability queries over nonlinear facts: an answer that does not come quickly is
		// treated as inconclusive (never as a failure), so do not wait for it
		timeout = 4 * time.Second
	}
	q := o.Query(false)
	file := obFile(o, "")
	os.WriteFile(file, []byte(q), 0o644)
	want := "unsat"
	if o.ExpectSat {
		want = "sat"
	}
	var total float64
	for i, s := range portfolio {
		f := file
		if s == "cvc5" {
			f = obFile(o, ".cvc5")
			os.WriteFile(f, []byte(o.Query(true)), 0o644)
		}
		res, out, el := runSolver(s, f, timeout)
		total += el
		o.Backend = s
		o.Output = out
		if res == want {
			o.Status = "proved"
			o.Time = total
			return
		}
		if o.ExpectSat {
			// vacuity guard: unknown is inconclusive, unsat is a vacuous contract
			if res == "unsat" {
				o.Status = "failed"
			} else {
				o.Status = "proved" // inconclusive: not shown vacuous
				o.Output = "inconclusive (" + res + ")"
			}
			o.Time = total
			return
		}
		if res == "sat" {
			o.Status = "failed"
			o.Time = total
			// try to get a model from this solver
			return
		}
		o.Status = res
		_ = i
	}
	o.Time = total
}

func solveAll(obls []*Obligation, timeout time.Duration, portfolio []string, workers int) {
	os.MkdirAll(outDir, 0o755)
	var wg sync.WaitGroup
	ch := make(chan *Obligation)
	for i := 0; i < workers; i++ {
		wg.Add(1)
		go func() {
			defer wg.Done()
			for o := range ch {
				solve(o, timeout, portfolio)
			}
		}()
	}
	// slowest-first does not matter; keep deterministic order
	sorted := append([]*Obligation(nil), obls...)
	sort.SliceStable(sorted, func(i, j int) bool { return sorted[i].Name < sorted[j].Name })
	for _, o := range sorted {
		ch <- o
	}
	close(ch)
	wg.Wait()
}

func isAllDigits(s string) bool {
	for _, c := range s {
		if c < '0' || c > '9' {
			return false
		}
	}
	return s != ""
}

// inScope: the obligation belongs to a clause (or assertion) whose label starts with the scope of a witness assertion.
func (o *Obligation) inScope(scope string) bool {
	for _, seg := range strings.Split(strings.TrimPrefix(o.Name, o.Fn+"/"), "/") {
		if strings.HasPrefix(seg, scope) {
			return true
		}
	}
	return false
}
