package main

import (
	"fmt"
	"go/types"
	"strings"
)

// Memory model (DESIGN 2.3): flat addresses (Int). Every scalar occupies one
// unit; a struct is the concatenation of its fields; an array of N elements
// of size s occupies N*s units. Scalar struct fields live in one SMT array
// per (named struct type, field), indexed by the base address of the struct.
// Scalars that are not struct fields (array elements, address-taken locals,
// pointees of *int64 ...) live in "cell.<type>" arrays indexed by their own
// address.
//
// Layer 2 sees a BigInt as an opaque object of size 3 with one abstract leaf
// "BigInt.val" (its mathematical value). Layer 1 (bigint.go) sees the real
// fields.

type Layout struct {
	layer1 bool // true when verifying bigint.go (BigInt representation visible)
}

func isNamed(t types.Type, name string) bool {
	n, ok := t.(*types.Named)
	return ok && n.Obj().Name() == name && n.Obj().Pkg() != nil && strings.HasSuffix(n.Obj().Pkg().Path(), "apd/v3")
}

func isBigInt(t types.Type) bool    { return isNamed(t, "BigInt") }
func isCondition(t types.Type) bool { return isNamed(t, "Condition") }

func isMathBigInt(t types.Type) bool {
	n, ok := t.(*types.Named)
	return ok && n.Obj().Name() == "Int" && n.Obj().Pkg() != nil && n.Obj().Pkg().Path() == "math/big"
}

// scalarSort returns the SMT sort for a scalar Go type, ok=false for aggregates.
func scalarSort(t types.Type) (Sort, bool) {
	if isCondition(t) {
		return SBV, true
	}
	switch u := t.Underlying().(type) {
	case *types.Basic:
		if u.Info()&types.IsBoolean != 0 {
			return SBool, true
		}
		return SInt, true
	case *types.Pointer, *types.Interface, *types.Map, *types.Chan, *types.Signature:
		return SInt, true
	}
	return SInt, false
}

// intRange returns the range of an integer type; ok=false if t is not an integer.
func intRange(t types.Type) (bits int, signed bool, ok bool) {
	b, isb := t.Underlying().(*types.Basic)
	if !isb || b.Info()&types.IsInteger == 0 {
		return 0, false, false
	}
	switch b.Kind() {
	case types.Int8:
		return 8, true, true
	case types.Int16:
		return 16, true, true
	case types.Int32:
		return 32, true, true
	case types.Int64, types.Int:
		return 64, true, true
	case types.Uint8:
		return 8, false, true
	case types.Uint16:
		return 16, false, true
	case types.Uint32:
		return 32, false, true
	case types.Uint64, types.Uint, types.Uintptr:
		return 64, false, true
	case types.UntypedInt, types.UntypedRune:
		return 64, true, true
	}
	return 0, false, false
}

func rangeFact(t Term, ty types.Type) Term {
	bits, signed, ok := intRange(ty)
	if !ok || isCondition(ty) {
		return TTrue
	}
	if signed {
		h := pow2big(bits - 1)
		return And(Le(Term{"(- " + h.String() + ")", SInt}, t), Lt(t, BigLit(h)))
	}
	return And(Le(IntLit(0), t), Lt(t, BigLit(pow2big(bits))))
}

func (L *Layout) sizeOf(t types.Type) int64 {
	if isBigInt(t) {
		return 3
	}
	if isMathBigInt(t) {
		return 1
	}
	switch u := t.Underlying().(type) {
	case *types.Struct:
		var n int64
		for i := 0; i < u.NumFields(); i++ {
			n += L.sizeOf(u.Field(i).Type())
		}
		if n == 0 {
			n = 1
		}
		return n
	case *types.Array:
		return u.Len() * L.sizeOf(u.Elem())
	}
	return 1
}

func (L *Layout) fieldOffset(st *types.Struct, idx int) int64 {
	var n int64
	for i := 0; i < idx; i++ {
		n += L.sizeOf(st.Field(i).Type())
	}
	return n
}

func typeKeyName(t types.Type) string {
	switch u := t.(type) {
	case *types.Named:
		return u.Obj().Name()
	case *types.Basic:
		return u.Name()
	case *types.Pointer:
		return "ptr"
	case *types.Slice:
		return "slice"
	}
	s := t.String()
	s = strings.NewReplacer("*", "p", "[", "_", "]", "_", ".", "_", "/", "_", " ", "", "{", "", "}", "", ";", "_").Replace(s)
	return s
}

func cellKey(t types.Type) string {
	if p, ok := t.Underlying().(*types.Pointer); ok {
		_ = p
		return "cell.ptr"
	}
	if _, ok := t.Underlying().(*types.Interface); ok {
		return "cell.iface"
	}
	if isCondition(t) {
		return "cell.Condition"
	}
	if b, ok := t.Underlying().(*types.Basic); ok {
		return "cell." + b.Name()
	}
	return "cell." + typeKeyName(t)
}

// A Leaf is one scalar location inside an object: heap key + offset to add to
// the object's base address to obtain the index into that key's array.
type Leaf struct {
	Key  string
	Off  int64 // index = base + Off
	Sort Sort
	Type types.Type // Go type of the scalar (nil for abstract leaves)
	Path string     // human-readable path inside the object
}

// leaves enumerates the scalar leaves of an object of type t located at base+off.
// structName is the name used for field keys when t is a struct.
func (L *Layout) leaves(t types.Type, off int64, path string) []Leaf {
	if isBigInt(t) && !L.layer1 {
		return []Leaf{{Key: "BigInt.val", Off: off, Sort: SInt, Path: path + ".val"}}
	}
	if isMathBigInt(t) {
		// val: the mathematical value; backing (ghost): the BigInt whose inline words the header points at (0: own storage)
		// nz (ghost): the sign flag is set; negzero(p) := nz(p) && val(p) == 0 is the one ill-formed state math/big can hand back
		return []Leaf{{Key: "MathBig.val", Off: off, Sort: SInt, Path: path + ".val"}, {Key: "MathBig.backing", Off: off, Sort: SInt, Path: path + ".backing"}, {Key: "MathBig.nz", Off: off, Sort: SBool, Path: path + ".nz"}}
	}
	switch u := t.Underlying().(type) {
	case *types.Struct:
		sname := typeKeyName(t)
		var out []Leaf
		for i := 0; i < u.NumFields(); i++ {
			f := u.Field(i)
			fo := off + L.fieldOffset(u, i)
			ft := f.Type()
			fpath := path + "." + f.Name()
			if _, isSlice := ft.Underlying().(*types.Slice); isSlice {
				// slice header: ptr and len stored under the field key, at the struct base
				out = append(out, Leaf{Key: sname + "." + f.Name() + "#ptr", Off: off, Sort: SInt, Type: nil, Path: fpath + "#ptr"})
				out = append(out, Leaf{Key: sname + "." + f.Name() + "#len", Off: off, Sort: SInt, Type: types.Typ[types.Int], Path: fpath + "#len"})
				continue
			}
			if s, ok := scalarSort(ft); ok {
				out = append(out, Leaf{Key: sname + "." + f.Name(), Off: off, Sort: s, Type: ft, Path: fpath})
				continue
			}
			out = append(out, L.leaves(ft, fo, fpath)...)
		}
		return out
	case *types.Array:
		var out []Leaf
		es := L.sizeOf(u.Elem())
		for i := int64(0); i < u.Len(); i++ {
			out = append(out, L.leaves(u.Elem(), off+i*es, fmt.Sprintf("%s[%d]", path, i))...)
		}
		return out
	}
	s, _ := scalarSort(t)
	return []Leaf{{Key: cellKey(t), Off: off, Sort: s, Type: t, Path: path}}
}

// keySort remembers the element sort for every heap key seen.
var keySorts = map[string]Sort{}

func noteKey(key string, s Sort) {
	if old, ok := keySorts[key]; ok && old != s {
		panic(fmt.Sprintf("heap key %s used at two sorts", key))
	}
	keySorts[key] = s
}
