package main

import (
	"fmt"
	"strings"
	"time"
)

// splitSexp splits "(op a b c)" into op and its argument texts.
func splitSexp(s string) (string, []string) {
	s = strings.TrimSpace(s)
	if len(s) < 2 || s[0] != '(' {
		return "", nil
	}
	s = s[1 : len(s)-1]
	var parts []string
	d := 0
	start := 0
	for i := 0; i < len(s); i++ {
		switch s[i] {
		case '(':
			d++
		case ')':
			d--
		case ' ':
			if d == 0 {
				if i > start {
					parts = append(parts, s[start:i])
				}
				start = i + 1
			}
		}
	}
	if start < len(s) {
		parts = append(parts, s[start:])
	}
	if len(parts) == 0 {
		return "", nil
	}
	return parts[0], parts[1:]
}

// conjuncts flattens a goal into (hypotheses, conclusion) pairs.
func conjuncts(goal string, hyps []string) [][2]string {
	op, args := splitSexp(goal)
	switch op {
	case "and":
		var out [][2]string
		for _, a := range args {
			out = append(out, conjuncts(a, hyps)...)
		}
		return out
	case "=>":
		if len(args) == 2 {
			return conjuncts(args[1], append(append([]string(nil), hyps...), args[0]))
		}
	case "or":
		// (or A (and ...)): treat "not A" as a hypothesis
		if len(args) == 2 {
			if op2, _ := splitSexp(args[1]); op2 == "and" {
				return conjuncts(args[1], append(append([]string(nil), hyps...), "(not "+args[0]+")"))
			}
		}
	}
	h := "true"
	if len(hyps) > 0 {
		h = "(and " + strings.Join(hyps, " ") + ")"
	}
	return [][2]string{{h, goal}}
}

// diagnose re-runs a failed obligation conjunct by conjunct and reports which parts fail.
func diagnose(o *Obligation, timeout time.Duration) []string {
	var out []string
	cs := conjuncts(o.Goal.S, nil)
	if len(cs) <= 1 {
		return nil
	}
	for i, c := range cs {
		sub := *o
		sub.Name = fmt.Sprintf("%s~%d", o.Name, i)
		sub.Goal = Term{"(=> " + c[0] + " " + c[1] + ")", SBool}
		solve(&sub, timeout, []string{"z3-new"})
		if sub.Status != "proved" {
			g := c[1]
			if len(g) > 300 {
				g = g[:300] + "..."
			}
			out = append(out, fmt.Sprintf("  conjunct %d %s: %s", i, sub.Status, g))
		}
	}
	return out
}
