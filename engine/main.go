package main

import (
	"flag"
	"fmt"
	"os"
	"path/filepath"
	"sort"
	"strings"
	"time"
)

func die(format string, args ...interface{}) {
	fmt.Fprintf(os.Stderr, format+"\n", args...)
	os.Exit(2)
}

func main() {
	if len(os.Args) < 2 {
		die("usage: apdvc <vc|check|list|replay> ...")
	}
	switch os.Args[1] {
	case "vc":
		cmdVC(os.Args[2:])
	case "check":
		cmdCheck(os.Args[2:])
	case "list":
		cmdList(os.Args[2:])
	case "replay":
		cmdReplay(os.Args[2:])
	case "rac":
		cmdRac(os.Args[2:])
	default:
		die("unknown command %s", os.Args[1])
	}
}

func repoDir() string {
	if d := os.Getenv("APDVC_REPO"); d != "" {
		return d
	}
	return "/repo"
}

// generateFor builds the obligations of the named contracts (all when names is empty).
func generateFor(W *World, names []string) ([]*FuncVC, []string) {
	var vcs []*FuncVC
	var problems []string
	if len(names) == 0 {
		names = W.spec.Order
	}
	for _, n := range names {
		fc := W.spec.Funcs[n]
		if fc == nil {
			problems = append(problems, "no contract for "+n)
			continue
		}
		if fc.Trusted {
			continue
		}
		fn := W.funcs[n]
		if fn == nil {
			problems = append(problems, "contract for unknown function "+n)
			continue
		}
		vc := NewFuncVC(W, fn, fc)
		if err := vc.Generate(); err != nil {
			problems = append(problems, err.Error())
			continue
		}
		problems = append(problems, vc.Stale...)
		vcs = append(vcs, vc)
	}
	return vcs, problems
}

func cmdVC(args []string) {
	fs := flag.NewFlagSet("vc", flag.ExitOnError)
	timeout := fs.Int("t", 10, "solver timeout (s)")
	verbose := fs.Bool("v", false, "print every obligation")
	only := fs.String("only", "", "only obligations whose name contains this")
	dump := fs.Bool("dump", false, "only write the queries")
	diag := fs.Bool("diag", false, "split failed goals into conjuncts")
	sites := fs.Bool("sites", false, "list call sites")
	port := fs.String("solvers", "z3-new", "comma-separated portfolio")
	fs.Parse(args)
	W, err := LoadWorld(repoDir())
	if err != nil {
		die("load: %v", err)
	}
	if !*dump {
		// private query directory (concurrent runs must not share query files); -dump keeps the shared one for inspection
		outDir = filepath.Join(verifDir(), "out", "vc", fmt.Sprintf("vc.%d", os.Getpid()))
		defer os.RemoveAll(outDir)
	}
	var fnames, lnames []string
	for _, a := range fs.Args() {
		if strings.HasPrefix(a, "lemma:") {
			lnames = append(lnames, strings.TrimPrefix(a, "lemma:"))
		} else {
			fnames = append(fnames, a)
		}
	}
	var vcs []*FuncVC
	var problems []string
	if len(fnames) > 0 || len(lnames) == 0 {
		vcs, problems = generateFor(W, fnames)
	}
	for _, p := range problems {
		fmt.Println("PROBLEM:", p)
	}
	var obls []*Obligation
	for _, vc := range vcs {
		for _, o := range vc.obls {
			if *only == "" {
				obls = append(obls, o)
				continue
			}
			for _, pat := range strings.Split(*only, ",") {
				if strings.Contains(o.Name, pat) {
					obls = append(obls, o)
					break
				}
			}
		}
		if *sites {
			for _, st := range vc.sites {
				fmt.Println("SITE", vc.name, st)
			}
		}
		for _, u := range vc.unsup {
			fmt.Printf("UNSUPPORTED %s: %s\n", vc.name, u)
		}
		if *verbose {
			for _, n := range vc.notes {
				fmt.Printf("NOTE %s: %s\n", vc.name, n)
			}
		}
		var unc []string
		for n := range vc.uncontracted {
			unc = append(unc, n)
		}
		sort.Strings(unc)
		if len(unc) > 0 {
			fmt.Printf("UNCONTRACTED callees of %s: %s\n", vc.name, strings.Join(unc, ", "))
		}
	}
	for _, o := range lemmaObligations(W, "", nil) {
		for _, n := range lnames {
			if o.Name == "lemma/"+n || n == "all" {
				obls = append(obls, o)
			}
		}
	}
	if *dump {
		os.MkdirAll(outDir, 0o755)
		for _, o := range obls {
			o.Level = 1
			os.WriteFile(obFile(o, ".l1"), []byte(o.Query(false)), 0o644)
			o.Level = 2
			os.WriteFile(obFile(o, ""), []byte(o.Query(false)), 0o644)
		}
		fmt.Printf("%d queries written to %s\n", len(obls), outDir)
		return
	}
	start := time.Now()
	solveAll(obls, time.Duration(*timeout)*time.Second, strings.Split(*port, ","), 12)
	bad := 0
	for _, o := range obls {
		if o.Status != "proved" {
			bad++
			fmt.Printf("%-8s %-7s %6.2fs %s  [%s] %s\n", o.Status, o.Backend, o.Time, o.Name, o.Pos, o.Src)
			if *diag {
				for _, l := range diagnose(o, time.Duration(*timeout)*time.Second) {
					fmt.Println(l)
				}
			}
		} else if *verbose {
			fmt.Printf("%-8s %-7s %6.2fs %s\n", o.Status, o.Backend, o.Time, o.Name)
		}
	}
	fmt.Printf("%d obligations, %d not proved, %.1fs\n", len(obls), bad, time.Since(start).Seconds())
}

func cmdList(args []string) {
	W, err := LoadWorld(repoDir())
	if err != nil {
		die("load: %v", err)
	}
	var ns []string
	for n := range W.funcs {
		ns = append(ns, n)
	}
	sort.Strings(ns)
	for _, n := range ns {
		mark := " "
		if fc := W.spec.Funcs[n]; fc != nil {
			mark = "C"
			if fc.Trusted {
				mark = "T"
			}
		}
		fmt.Println(mark, n)
	}
}

// cmdRac runs the runtime assertion check of the contracts against the real code on sampled inputs
// (a sanity check of contracts and of assumed contracts; bounded, never counted as proved).
func cmdRac(args []string) {
	W, err := LoadWorld(repoDir())
	if err != nil {
		die("load: %v", err)
	}
	names := args
	if len(names) == 0 {
		names = W.spec.Order
	}
	type res struct{ name, out string }
	ch := make(chan res)
	sem := make(chan bool, 8)
	n := 0
	for _, name := range names {
		fc, fn := W.spec.Funcs[name], W.funcs[name]
		if fc == nil || fn == nil || fn.Blocks == nil || fn.Pkg != W.spkg {
			continue
		}
		src, err := W.racTest(fn, fc)
		if err != nil {
			fmt.Printf("SKIP %s: %v\n", name, err)
			continue
		}
		n++
		if d := os.Getenv("APDVC_RAC_KEEP"); d != "" {
			os.WriteFile(filepath.Join(d, sanitize(name)+"_rac_test.go"), []byte(src), 0o644)
		}
		go func(name, src string) {
			sem <- true
			secs, trials := "8", "20000"
			if v := os.Getenv("APDVC_RAC_SECONDS"); v != "" {
				secs, trials = v, "100000000"
			}
			out, _ := runRAC(W, src, []string{"VERIF_SEED=" + os.Getenv("VERIF_SEED"), "RAC_SECONDS=" + secs, "RAC_TRIALS=" + trials}, 600*time.Second)
			<-sem
			ch <- res{name, out}
		}(name, src)
	}
	bad := 0
	for i := 0; i < n; i++ {
		r := <-ch
		switch {
		case strings.Contains(r.out, "RACFAIL"):
			bad++
			for _, l := range strings.Split(r.out, "\n") {
				if strings.Contains(l, "RACFAIL") {
					fmt.Printf("FAIL %s: %s\n", r.name, truncate(strings.TrimSpace(l), 600))
				}
			}
		case strings.HasPrefix(strings.TrimSpace(r.out), "ok") || strings.Contains(r.out, "\nok  \t") || strings.Contains(r.out, "--- PASS: TestVerifReplay"):
			fmt.Printf("ok   %s\n", r.name)
		default:
			bad++
			fmt.Printf("ERR  %s: %s\n", r.name, truncate(r.out, 800))
		}
	}
	fmt.Printf("%d functions checked at run time, %d with failures\n", n, bad)
}
