package main

// Runtime assertion checking (RAC): contract expressions compiled to Go code over
// math/big, used to replay counterexamples and to search for concrete witnesses
// of a failed obligation on the real code (DESIGN section 6). Nothing here
// decides a property: deciding is the solver's answer on the obligation.

import (
	"fmt"
	"go/constant"
	"go/types"
	"math/big"
	"strings"
)

type gkind int

const (
	gInt gkind = iota
	gBool
	gCond
	gRef
	gSlice
)

type gval struct {
	s    string // Go expression
	k    gkind
	elem types.Type // gRef: pointee; gSlice: element
	o    string     // gRef: expression denoting the pre-state copy of the object ("" = same object)
}

type racEnv struct {
	W      *World
	vars   map[string]gval
	old    bool // compiling inside old(...)
	params map[string]bool
	n      *int
	layer1 bool
}

func (e *racEnv) fresh(p string) string {
	*e.n++
	return fmt.Sprintf("%s%d", p, *e.n)
}

func gv(s string, k gkind, elem types.Type) gval { return gval{s: s, k: k, elem: elem} }

func goType(k gkind, elem types.Type) string {
	switch k {
	case gInt:
		return "*big.Int"
	case gBool:
		return "bool"
	case gCond:
		return "uint32"
	case gRef:
		return "*" + goTypeName(elem)
	case gSlice:
		return "[]" + goTypeName(elem)
	}
	return "interface{}"
}

func goTypeName(t types.Type) string {
	if t == nil {
		return "Decimal"
	}
	switch u := t.(type) {
	case *types.Named:
		if u.Obj().Pkg() != nil && u.Obj().Pkg().Path() == "math/big" {
			return "big." + u.Obj().Name()
		}
		if u.Obj().Pkg() != nil && u.Obj().Pkg().Path() != "github.com/cockroachdb/apd/v3" {
			if it, ok := u.Underlying().(*types.Interface); ok && it.NumMethods() == 0 {
				return "interface{}" // e.g. database/sql/driver.Value
			}
			return u.Obj().Pkg().Path() + "." + u.Obj().Name() // a type the harness does not import (callers skip it)
		}
		return u.Obj().Name()
	case *types.Basic:
		return u.Name()
	case *types.Pointer:
		return "*" + goTypeName(u.Elem())
	case *types.Array:
		return fmt.Sprintf("[%d]%s", u.Len(), goTypeName(u.Elem()))
	}
	return t.String()
}

func kindOfGo(t types.Type) (gkind, types.Type) {
	if isCondition(t) {
		return gCond, nil
	}
	switch u := t.Underlying().(type) {
	case *types.Basic:
		if u.Info()&types.IsBoolean != 0 {
			return gBool, nil
		}
		return gInt, nil
	case *types.Pointer:
		return gRef, u.Elem()
	case *types.Slice:
		return gSlice, u.Elem()
	}
	return gInt, nil
}

// wrapScalar converts a Go expression of Go type t into its RAC representation.
func wrapScalar(expr string, t types.Type) gval {
	k, el := kindOfGo(t)
	switch k {
	case gBool:
		return gval{s: "bool(" + expr + ")", k: gBool, elem: nil}
	case gCond:
		return gval{s: "uint32(" + expr + ")", k: gCond, elem: nil}
	case gRef:
		return gval{s: expr, k: gRef, elem: el}
	case gSlice:
		return gval{s: expr, k: gSlice, elem: el}
	}
	if b, ok := t.Underlying().(*types.Basic); ok {
		if b.Info()&types.IsString != 0 {
			return gval{s: "racStr(string(" + expr + "))", k: gInt, elem: nil}
		}
		if b.Info()&types.IsUnsigned != 0 {
			return gval{s: "new(big.Int).SetUint64(uint64(" + expr + "))", k: gInt, elem: nil}
		}
		if b.Info()&types.IsInteger != 0 {
			return gval{s: "big.NewInt(int64(" + expr + "))", k: gInt, elem: nil}
		}
	}
	if _, ok := t.Underlying().(*types.Interface); ok {
		return gval{s: "racIface(" + expr + ")", k: gRef, elem: nil}
	}
	return gval{s: "big.NewInt(0)", k: gInt, elem: nil}
}

func (e *racEnv) fail(f string, a ...interface{}) { panic(fmt.Sprintf("rac: "+f, a...)) }

func (e *racEnv) with(vars map[string]gval) *racEnv {
	n := *e
	n.vars = map[string]gval{}
	for k, v := range e.vars {
		n.vars[k] = v
	}
	for k, v := range vars {
		n.vars[k] = v
	}
	return &n
}

func (e *racEnv) parseType(s string) (gkind, types.Type) {
	s = strings.TrimSpace(s)
	switch s {
	case "fmtstate":
		return gRef, nil
	case "int", "rounder", "form", "error", "string":
		return gInt, nil
	case "bool":
		return gBool, nil
	case "cond":
		return gCond, nil
	case "[]int64":
		return gSlice, types.Typ[types.Int64]
	case "[]byte":
		return gSlice, types.Universe.Lookup("byte").Type()
	}
	if strings.HasPrefix(s, "*") {
		name := s[1:]
		if name == "big.Int" {
			return gRef, e.W.mathBigIntType()
		}
		if obj := e.W.pkg.Types.Scope().Lookup(name); obj != nil {
			return gRef, obj.Type()
		}
	}
	e.fail("unknown type %s", s)
	return gInt, nil
}

func (e *racEnv) b(x Expr) string {
	v := e.eval(x)
	if v.k != gBool {
		e.fail("expected bool in %s", exprString(x))
	}
	return v.s
}

func (e *racEnv) i(x Expr) string {
	v := e.eval(x)
	if v.k == gRef {
		return "racAddr(" + v.s + ")"
	}
	if v.k != gInt {
		e.fail("expected int in %s", exprString(x))
	}
	return v.s
}

func (e *racEnv) c(x Expr) string {
	if lit, ok := x.(*ELit); ok {
		n, _ := new(big.Int).SetString(lit.V, 0)
		return fmt.Sprintf("uint32(%d)", n.Uint64())
	}
	v := e.eval(x)
	if v.k != gCond {
		e.fail("expected Condition in %s", exprString(x))
	}
	return v.s
}

func (e *racEnv) eval(x Expr) gval {
	switch x := x.(type) {
	case *EStr:
		return gval{s: fmt.Sprintf("racStr(%q)", x.S), k: gInt, elem: nil}
	case *ELit:
		n, _ := new(big.Int).SetString(x.V, 0)
		return gval{s: fmt.Sprintf("racBig(%q)", n.String()), k: gInt, elem: nil}
	case *EBool:
		return gval{s: fmt.Sprint(x.V), k: gBool, elem: nil}
	case *ENil:
		return gval{s: "nil", k: gRef, elem: nil}
	case *EIdent:
		return e.ident(x.Name)
	case *EOld:
		n := *e
		n.old = true
		return n.eval(x.X)
	case *ELet:
		v := e.eval(x.V)
		name := e.fresh("l_" + sanitize(x.Name) + "_")
		body := e.with(map[string]gval{x.Name: {s: name, k: v.k, elem: v.elem}}).eval(x.Body)
		return gv(fmt.Sprintf("func() %s { %s := %s; _ = %s; return %s }()", goType(body.k, body.elem), name, v.s, name, body.s), body.k, body.elem)
	case *EForall:
		name := e.fresh("q_")
		body := e.with(map[string]gval{x.Var: {s: "big.NewInt(" + name + ")", k: gInt}}).b(x.Body)
		return gv(fmt.Sprintf("func() bool { for %s := racI64(%s); %s <= racI64(%s); %s++ { if !(%s) { return false } }; return true }()", name, e.i(x.Lo), name, e.i(x.Hi), name, body), gBool, nil)
	case *EUn:
		switch x.Op {
		case "!":
			return gval{s: "!(" + e.b(x.X) + ")", k: gBool, elem: nil}
		case "-":
			return gval{s: "new(big.Int).Neg(" + e.i(x.X) + ")", k: gInt, elem: nil}
		case "~":
			return gval{s: "^(" + e.c(x.X) + ")", k: gCond, elem: nil}
		case "*":
			v := e.eval(x.X)
			if v.k != gRef {
				e.fail("* of non-pointer")
			}
			return wrapScalar("*"+v.s, v.elem)
		}
	case *EBin:
		return e.binary(x)
	case *EField:
		base := e.eval(x.X)
		if base.k != gRef || base.elem == nil {
			e.fail("field of non-reference in %s", exprString(x))
		}
		stt, ok := base.elem.Underlying().(*types.Struct)
		if !ok {
			e.fail("field of non-struct")
		}
		for i := 0; i < stt.NumFields(); i++ {
			f := stt.Field(i)
			if f.Name() != x.Name {
				continue
			}
			ft := f.Type()
			if _, isSlice := ft.Underlying().(*types.Slice); isSlice {
				return gv(base.s+"."+x.Name, gSlice, ft.Underlying().(*types.Slice).Elem())
			}
			if _, ok := scalarSort(ft); ok {
				return wrapScalar(base.s+"."+x.Name, ft)
			}
			return gval{s: "(&" + base.s + "." + x.Name + ")", k: gRef, elem: ft}
		}
		e.fail("no field %s", x.Name)
	case *EIndex:
		base := e.eval(x.X)
		idx := "racI64(" + e.i(x.I) + ")"
		switch base.k {
		case gSlice:
			if _, ok := scalarSort(base.elem); ok {
				if b, isB := base.elem.Underlying().(*types.Basic); isB && b.Kind() == types.Uint8 {
					return wrapScalar("racIdxB("+base.s+", "+idx+")", base.elem)
				}
				return wrapScalar("racIdx("+base.s+", "+idx+")", base.elem)
			}
			return gval{s: "(&" + base.s + "[" + idx + "])", k: gRef, elem: base.elem}
		case gRef:
			if arr, ok := base.elem.Underlying().(*types.Array); ok {
				if _, ok := scalarSort(arr.Elem()); ok {
					return wrapScalar("(*"+base.s+")["+idx+"]", arr.Elem())
				}
				return gval{s: "(&(*" + base.s + ")[" + idx + "])", k: gRef, elem: arr.Elem()}
			}
		}
		e.fail("index of non-array")
	case *ECall:
		return e.call(x)
	}
	e.fail("cannot compile %T", x)
	return gval{}
}

func (e *racEnv) ident(name string) gval {
	if v, ok := e.vars[name]; ok {
		if e.old && v.k == gRef && v.o != "" {
			return gval{s: v.o, k: v.k, elem: v.elem, o: v.o}
		}
		return v
	}
	if obj := e.W.pkg.Types.Scope().Lookup(name); obj != nil {
		switch o := obj.(type) {
		case *types.Const:
			v := o.Val()
			switch v.Kind() {
			case constant.Bool:
				return gval{s: fmt.Sprint(constant.BoolVal(v)), k: gBool, elem: nil}
			case constant.String:
				return gval{s: fmt.Sprintf("racStr(%q)", constant.StringVal(v)), k: gInt, elem: nil}
			case constant.Int:
				if isCondition(o.Type()) {
					return gval{s: "uint32(" + name + ")", k: gCond, elem: nil}
				}
				return gval{s: fmt.Sprintf("racBig(%q)", v.ExactString()), k: gInt, elem: nil}
			}
		case *types.Var:
			if p, ok := o.Type().Underlying().(*types.Pointer); ok {
				return gval{s: name, k: gRef, elem: p.Elem()}
			}
			return gval{s: "(&" + name + ")", k: gRef, elem: o.Type()}
		}
	}
	e.fail("unknown identifier %s", name)
	return gval{}
}

func (e *racEnv) binary(x *EBin) gval {
	switch x.Op {
	case "&&":
		return gval{s: "(" + e.b(x.X) + " && " + e.b(x.Y) + ")", k: gBool, elem: nil}
	case "||":
		return gval{s: "(" + e.b(x.X) + " || " + e.b(x.Y) + ")", k: gBool, elem: nil}
	case "==>":
		return gval{s: "(!(" + e.b(x.X) + ") || " + e.b(x.Y) + ")", k: gBool, elem: nil}
	case "<==>":
		return gval{s: "((" + e.b(x.X) + ") == (" + e.b(x.Y) + "))", k: gBool, elem: nil}
	}
	_, xl := x.X.(*ELit)
	_, yl := x.Y.(*ELit)
	var a, b gval
	if xl && !yl {
		b = e.eval(x.Y)
		if b.k == gCond {
			a = gval{s: e.c(x.X), k: gCond, elem: nil}
		} else {
			a = e.eval(x.X)
		}
	} else {
		a = e.eval(x.X)
		if yl && a.k == gCond {
			b = gval{s: e.c(x.Y), k: gCond, elem: nil}
		} else {
			b = e.eval(x.Y)
		}
	}
	switch x.Op {
	case "==", "!=":
		var s string
		switch {
		case a.k == gBool && b.k == gBool, a.k == gCond && b.k == gCond:
			s = "(" + a.s + " == " + b.s + ")"
		case a.k == gRef || b.k == gRef:
			as, bs := a.s, b.s
			if a.k == gRef && as != "nil" {
				as = "racAddr(" + as + ")"
			}
			if b.k == gRef && bs != "nil" {
				bs = "racAddr(" + bs + ")"
			}
			if as == "nil" {
				as = "big.NewInt(0)"
			}
			if bs == "nil" {
				bs = "big.NewInt(0)"
			}
			s = "(" + as + ".Cmp(" + bs + ") == 0)"
		default:
			s = "(" + a.s + ".Cmp(" + b.s + ") == 0)"
		}
		if x.Op == "!=" {
			s = "!" + s
		}
		return gval{s: s, k: gBool, elem: nil}
	case "<", "<=", ">", ">=":
		return gval{s: "(" + e.i(x.X) + ".Cmp(" + e.i(x.Y) + ") " + x.Op + " 0)", k: gBool, elem: nil}
	case "+":
		return gv("new(big.Int).Add("+e.i(x.X)+", "+e.i(x.Y)+")", gInt, nil)
	case "-":
		return gv("new(big.Int).Sub("+e.i(x.X)+", "+e.i(x.Y)+")", gInt, nil)
	case "*":
		return gv("new(big.Int).Mul("+e.i(x.X)+", "+e.i(x.Y)+")", gInt, nil)
	case "&":
		return gval{s: "(" + a.s + " & " + b.s + ")", k: gCond, elem: nil}
	case "|":
		return gval{s: "(" + a.s + " | " + b.s + ")", k: gCond, elem: nil}
	case "^":
		return gval{s: "(" + a.s + " ^ " + b.s + ")", k: gCond, elem: nil}
	case "&^":
		return gval{s: "(" + a.s + " &^ " + b.s + ")", k: gCond, elem: nil}
	}
	e.fail("operator %s", x.Op)
	return gval{}
}

func (e *racEnv) call(x *ECall) gval {
	a := x.Args
	i := func(k int) string { return e.i(a[k]) }
	switch x.Fn {
	case "pow10":
		return gval{s: "racPow(10, " + i(0) + ")", k: gInt, elem: nil}
	case "pow2":
		return gval{s: "racPow(2, " + i(0) + ")", k: gInt, elem: nil}
	case "nd10":
		return gval{s: "racNd10(" + i(0) + ")", k: gInt, elem: nil}
	case "bitlen":
		return gval{s: "big.NewInt(int64(" + i(0) + ".BitLen()))", k: gInt, elem: nil}
	case "abs":
		return gval{s: "new(big.Int).Abs(" + i(0) + ")", k: gInt, elem: nil}
	case "sgn":
		return gval{s: "big.NewInt(int64(" + i(0) + ".Sign()))", k: gInt, elem: nil}
	case "min":
		return gv("racMin("+i(0)+", "+i(1)+")", gInt, nil)
	case "max":
		return gv("racMax("+i(0)+", "+i(1)+")", gInt, nil)
	case "tdiv":
		return gv("racTDiv("+i(0)+", "+i(1)+")", gInt, nil)
	case "tmod":
		return gv("racTMod("+i(0)+", "+i(1)+")", gInt, nil)
	case "div":
		return gv("racEDiv("+i(0)+", "+i(1)+")", gInt, nil)
	case "mod":
		return gv("racEMod("+i(0)+", "+i(1)+")", gInt, nil)
	case "wrap64":
		return gval{s: "racWrap64(" + i(0) + ")", k: gInt, elem: nil}
	case "wrap64u":
		return gval{s: "racWrap64u(" + i(0) + ")", k: gInt, elem: nil}
	case "ite":
		c := e.b(a[0])
		var p, q gval
		if _, lit := a[2].(*ELit); lit {
			p = e.eval(a[1])
			if p.k == gCond {
				q = gval{s: e.c(a[2]), k: gCond, elem: nil}
			} else {
				q = e.eval(a[2])
			}
		} else {
			q = e.eval(a[2])
			if _, lit := a[1].(*ELit); lit && q.k == gCond {
				p = gval{s: e.c(a[1]), k: gCond, elem: nil}
			} else {
				p = e.eval(a[1])
			}
		}
		return gv(fmt.Sprintf("func() %s { if %s { return %s }; return %s }()", goType(p.k, p.elem), c, p.s, q.s), p.k, p.elem)
	case "wlog", "wlogok", "stflag", "stwidth", "sthaswidth":
		// the fmt.State itself (interface values are otherwise handled as opaque racIface(x))
		st := e.eval(a[0]).s
		if strings.HasPrefix(st, "racIface(") && strings.HasSuffix(st, ")") {
			st = st[len("racIface(") : len(st)-1]
		}
		st = "interface{}(" + st + ").(fmt.State)"
		switch x.Fn {
		case "wlog":
			return gval{s: "racLog(" + st + ", " + fmt.Sprint(e.old) + ")", k: gSlice, elem: types.Universe.Lookup("byte").Type()}
		case "wlogok":
			return gval{s: "true", k: gBool}
		case "stflag":
			return gval{s: st + ".Flag(int(racI64(" + e.i(a[1]) + ")))", k: gBool}
		case "stwidth":
			return gval{s: "func() *big.Int { w, _ := " + st + ".Width(); return big.NewInt(int64(w)) }()", k: gInt}
		}
		return gval{s: "func() bool { _, ok := " + st + ".Width(); return ok }()", k: gBool}
	case "istr", "isstr", "isbytes", "ibytes":
		st := e.eval(a[0]).s
		if strings.HasPrefix(st, "racIface(") && strings.HasSuffix(st, ")") {
			st = st[len("racIface(") : len(st)-1]
		}
		switch x.Fn {
		case "isstr":
			return gval{s: "func() bool { _, ok := interface{}(" + st + ").(string); return ok }()", k: gBool}
		case "isbytes":
			return gval{s: "func() bool { _, ok := interface{}(" + st + ").([]byte); return ok }()", k: gBool}
		case "ibytes":
			return gval{s: "func() []byte { b, _ := interface{}(" + st + ").([]byte); return b }()", k: gSlice, elem: types.Universe.Lookup("byte").Type()}
		}
		return gval{s: "racStr(func() string { s, _ := interface{}(" + st + ").(string); return s }())", k: gInt}
	case "beval":
		return gval{s: "new(big.Int).SetBytes(" + e.eval(a[0]).s + ")", k: gInt, elem: nil}
	case "bytes":
		// strings are represented by their codes (racStr(string(x))): take the text itself
		inner := e.eval(a[0]).s
		if strings.HasPrefix(inner, "racStr(") && strings.HasSuffix(inner, ")") {
			inner = inner[len("racStr(") : len(inner)-1] // a string expression
		}
		return gval{s: "[]byte(" + inner + ")", k: gSlice, elem: types.Universe.Lookup("byte").Type()}
	case "len":
		return gval{s: "big.NewInt(int64(len(" + e.eval(a[0]).s + ")))", k: gInt, elem: nil}
	case "cap":
		return gval{s: "big.NewInt(int64(cap(" + e.eval(a[0]).s + ")))", k: gInt, elem: nil}
	case "same", "filled", "dseg", "mseg":
		// desugared to the element-wise quantifier
		t := &EIdent{Name: "racT"}
		at := func(sl Expr, off Expr) Expr {
			idx := &EBin{Op: "+", X: off, Y: t}
			if o, ok := sl.(*EOld); ok {
				return &EOld{X: &EIndex{X: o.X, I: idx}}
			}
			return &EIndex{X: sl, I: idx}
		}
		var n, body Expr
		if x.Fn == "same" {
			n, body = a[4], &EBin{Op: "==", X: at(a[0], a[1]), Y: at(a[2], a[3])}
		} else if x.Fn == "mseg" {
			k := &EBin{Op: "+", X: a[4], Y: t}
			n, body = a[5], &EBin{Op: "==", X: at(a[0], a[1]), Y: &ECall{Fn: "ite", Args: []Expr{&EBin{Op: "<", X: k, Y: a[2]}, &ELit{V: "48"}, &ECall{Fn: "uf_dchar", Args: []Expr{a[3], &EBin{Op: "-", X: k, Y: a[2]}}}}}}
		} else if x.Fn == "dseg" {
			n, body = a[4], &EBin{Op: "==", X: at(a[0], a[1]), Y: &ECall{Fn: "uf_dchar", Args: []Expr{a[2], &EBin{Op: "+", X: a[3], Y: t}}}}
		} else {
			n, body = a[2], &EBin{Op: "==", X: at(a[0], a[1]), Y: a[3]}
		}
		return e.eval(&EForall{Var: "racT", Lo: &ELit{V: "0"}, Hi: &EBin{Op: "-", X: n, Y: &ELit{V: "1"}}, Body: body})
	case "extends":
		// observable part: the same array means the same capacity and no shrinking; a result inside the original
		// array at another offset is never right; "allocated after the call" cannot be seen at run time
		return gval{s: "racExtends(" + e.eval(a[0]).s + ", " + e.eval(a[1]).s + ")", k: gBool, elem: nil}
	case "has":
		return gval{s: "((" + e.c(a[0]) + " & " + e.c(a[1]) + ") != 0)", k: gBool, elem: nil}
	case "none":
		return gval{s: "((" + e.c(a[0]) + " & " + e.c(a[1]) + ") == 0)", k: gBool, elem: nil}
	case "only":
		return gval{s: "((" + e.c(a[0]) + " &^ " + e.c(a[1]) + ") == 0)", k: gBool, elem: nil}
	case "flag":
		return gv(fmt.Sprintf("func() uint32 { if %s { return %s }; return 0 }()", e.b(a[0]), e.c(a[1])), gCond, nil)
	case "wordskept":
		return gval{s: "true", k: gBool, elem: nil}
	case "negzero":
		return gv("racNegZero("+e.eval(a[0]).s+")", gBool, nil)
	case "bvdec":
		return gv("("+e.c(a[0])+" - 1)", gCond, nil)
	case "bvint":
		return gv("new(big.Int).SetUint64(uint64("+e.c(a[0])+"))", gInt, nil)
	case "writable", "isglobal", "allocated", "isfresh":
		return gval{s: "true", k: gBool, elem: nil}
	case "val":
		v := e.eval(a[0])
		if v.elem != nil && isMathBigInt(v.elem) {
			return gval{s: "new(big.Int).Set(" + v.s + ")", k: gInt, elem: nil}
		}
		return gval{s: "(" + v.s + ").MathBigInt()", k: gInt, elem: nil}
	case "rep":
		return gval{s: "racRep(" + e.eval(a[0]).s + ")", k: gBool, elem: nil}
	case "unchanged":
		v := e.eval(a[0])
		n := *e
		n.old = true
		o := n.eval(a[0])
		return gv("racSame("+v.s+", "+o.s+")", gBool, nil)
	case "sameobj":
		v := e.eval(a[0])
		n := *e
		n.old = true
		o := n.eval(a[1])
		return gv("racSame("+v.s+", "+o.s+")", gBool, nil)
	}
	if strings.HasPrefix(x.Fn, "uf_") {
		var as []string
		for k := range a {
			as = append(as, i(k))
		}
		return gv("racUF(\""+x.Fn+"\", "+strings.Join(as, ", ")+")", gInt, nil)
	}
	m := e.W.spec.Macros[x.Fn]
	if m == nil {
		e.fail("unknown function %s", x.Fn)
	}
	if m.L1Only && !e.layer1 {
		return gval{s: "true", k: gBool, elem: nil}
	}
	vars := map[string]gval{}
	var binds []string
	for k, p := range m.Params {
		v := e.eval(a[k])
		wk, wel := e.parseType(p.Type)
		if wk == gCond && v.k == gInt {
			v = gval{s: e.c(a[k]), k: gCond, elem: nil}
		}
		if wk == gRef {
			v.elem = wel
			if v.s == "nil" {
				v.s = "(" + goType(gRef, wel) + ")(nil)"
			}
		}
		name := e.fresh("m_" + sanitize(p.Name) + "_")
		binds = append(binds, fmt.Sprintf("%s := %s; _ = %s;", name, v.s, name))
		bound := gval{s: name, k: v.k, elem: v.elem}
		if wk == gRef {
			// the same argument seen in the pre-state (for old(...) inside the macro body)
			no := *e
			no.old = true
			ov := no.eval(a[k])
			if ov.s == "nil" {
				ov.s = "(" + goType(gRef, wel) + ")(nil)"
			}
			binds = append(binds, fmt.Sprintf("%s_old := %s; _ = %s_old;", name, ov.s, name))
			bound.o = name + "_old"
		}
		vars[p.Name] = bound
	}
	n := *e
	n.vars = vars
	n.params = map[string]bool{}
	// inside a macro, old(...) still refers to the pre-state of the objects passed in: keep params of the function visible through old_ copies
	body := (&racEnv{W: e.W, vars: mergeOld(vars, e), old: e.old, params: e.params, n: e.n, layer1: e.layer1}).eval(m.Body)
	_ = n
	return gv(fmt.Sprintf("func() %s { %s return %s }()", goType(body.k, body.elem), strings.Join(binds, " "), body.s), body.k, body.elem)
}

// mergeOld: macro bodies see only their parameters; when a parameter is bound to a function parameter x
// and the body uses old(...), the binding must switch to old_x. We handle that by binding, for every
// reference-typed macro argument that is syntactically a function parameter, an extra "old view".
func mergeOld(vars map[string]gval, e *racEnv) map[string]gval {
	return vars
}
