/-
Lemma library of the apd contract checks (DESIGN section 4).

The SMT queries treat `pow10`, `nd10`, `pow2`, `bitlen` as uninterpreted functions and
`edq`/`edr` as uninterpreted Euclidean quotient/remainder; the generator adds ground
instances of the statements below (solve.go, lemmaInstances) and the contracts file
states the `axiom`s pow10_add, div_lt, div_ge, mul_lt, mul_le, mul_lin, bitlen_hi.
Every schema is proved here for the intended interpretation.
-/
import Mathlib.Tactic
import Mathlib.Data.Nat.Digits.Lemmas
import Mathlib.Data.Nat.Size

namespace Apd

/-- 10^n for n ≥ 0 (the value for negative n is irrelevant: every schema assumes 0 ≤ n). -/
def pow10 (n : ℤ) : ℤ := 10 ^ n.toNat
def pow2 (n : ℤ) : ℤ := 2 ^ n.toNat

theorem pow10_pos (n : ℤ) (_ : 0 ≤ n) : 1 ≤ pow10 n := by
  unfold pow10; exact one_le_pow₀ (by norm_num)

theorem pow10_zero : pow10 0 = 1 := by simp [pow10]
theorem pow10_one : pow10 1 = 10 := by simp [pow10]

theorem pow10_succ (a : ℤ) (ha : 0 ≤ a) : pow10 (a + 1) = 10 * pow10 a := by
  unfold pow10
  have : (a + 1).toNat = a.toNat + 1 := by omega
  rw [this, pow_succ]; ring

theorem pow10_add (a b : ℤ) (ha : 0 ≤ a) (hb : 0 ≤ b) : pow10 (a + b) = pow10 a * pow10 b := by
  unfold pow10
  have : (a + b).toNat = a.toNat + b.toNat := by omega
  rw [this, pow_add]

theorem pow10_strict (a b : ℤ) (ha : 0 ≤ a) (hab : a < b) : 10 * pow10 a ≤ pow10 b := by
  have hb : b = (a + 1) + (b - a - 1) := by ring
  rw [hb, pow10_add (a + 1) (b - a - 1) (by omega) (by omega), pow10_succ a ha]
  have h1 : 1 ≤ pow10 (b - a - 1) := pow10_pos _ (by omega)
  have h2 : 0 ≤ 10 * pow10 a := by have := pow10_pos a ha; omega
  nlinarith

theorem pow2_pos (n : ℤ) (_ : 0 ≤ n) : 1 ≤ pow2 n := by
  unfold pow2; exact one_le_pow₀ (by norm_num)

theorem pow2_succ (a : ℤ) (ha : 0 ≤ a) : pow2 (a + 1) = 2 * pow2 a := by
  unfold pow2
  have : (a + 1).toNat = a.toNat + 1 := by omega
  rw [this, pow_succ]; ring

theorem pow2_add (a b : ℤ) (ha : 0 ≤ a) (hb : 0 ≤ b) : pow2 (a + b) = pow2 a * pow2 b := by
  unfold pow2
  have : (a + b).toNat = a.toNat + b.toNat := by omega
  rw [this, pow_add]

theorem pow2_strict (a b : ℤ) (ha : 0 ≤ a) (hab : a < b) : 2 * pow2 a ≤ pow2 b := by
  have hb : b = (a + 1) + (b - a - 1) := by ring
  rw [hb, pow2_add (a + 1) (b - a - 1) (by omega) (by omega), pow2_succ a ha]
  have h1 : 1 ≤ pow2 (b - a - 1) := pow2_pos _ (by omega)
  have h2 : 0 ≤ 2 * pow2 a := by have := pow2_pos a ha; omega
  nlinarith

/-! Euclidean division: the characterisation instantiated for every `edq a b` / `edr a b`. -/

theorem ediv_char_pos (a b : ℤ) (hb : 0 < b) :
    a = (a / b) * b + a % b ∧ 0 ≤ a % b ∧ a % b < b := by
  refine ⟨?_, Int.emod_nonneg a (by omega), Int.emod_lt_of_pos a hb⟩
  have := Int.emod_def a b
  linarith [mul_comm b (a / b)]

theorem ediv_char_neg (a b : ℤ) (hb : b < 0) :
    a = (a / b) * b + a % b ∧ 0 ≤ a % b ∧ a % b < -b := by
  refine ⟨?_, Int.emod_nonneg a (by omega), ?_⟩
  · have := Int.emod_def a b
    linarith [mul_comm b (a / b)]
  · have := Int.emod_lt a (by omega : b ≠ 0)
    omega

theorem ediv_nonneg_le (a b : ℤ) (hb : 0 < b) (ha : 0 ≤ a) : 0 ≤ a / b ∧ a / b ≤ a := by
  constructor
  · exact Int.ediv_nonneg ha (by omega)
  · exact Int.ediv_le_self b ha

/-! The axioms of the contracts file. -/

theorem div_lt (a b k : ℤ) (hb : 0 < b) (h : a < k * b) : a / b < k :=
  Int.ediv_lt_of_lt_mul hb h

theorem div_ge (a b k : ℤ) (hb : 0 < b) (h : k * b ≤ a) : k ≤ a / b :=
  Int.le_ediv_of_mul_le hb h

theorem mul_lt (a b k : ℤ) (hk : 0 < k) (h : a < b) : a * k < b * k :=
  mul_lt_mul_of_pos_right h hk

theorem mul_le (a b k : ℤ) (hk : 0 ≤ k) (h : a ≤ b) : a * k ≤ b * k :=
  mul_le_mul_of_nonneg_right h hk

theorem mul_lin (a b k p : ℤ) (h : a = k * b) : a * p = k * (b * p) := by
  subst h; ring

/-! Decimal digit count. -/

def nd10 (v : ℤ) : ℤ := if v = 0 then 1 else ((Nat.digits 10 v.natAbs).length : ℤ)

theorem nd10_pos (v : ℤ) : 1 ≤ nd10 v := by
  unfold nd10
  split
  · norm_num
  · rename_i h
    have : v.natAbs ≠ 0 := by omega
    have := (Nat.digits_ne_nil_iff_ne_zero (b := 10)).mpr this
    have : 0 < (Nat.digits 10 v.natAbs).length := List.length_pos_iff.mpr this
    omega

theorem nd10_zero : nd10 0 = 1 := by simp [nd10]

theorem nd10_bracket (v : ℤ) (hv : 0 < v) :
    pow10 (nd10 v - 1) ≤ v ∧ v < pow10 (nd10 v) := by
  have hne : v ≠ 0 := by omega
  have hn : v.natAbs ≠ 0 := by omega
  have hcast : (v.natAbs : ℤ) = v := by omega
  unfold nd10 pow10
  simp only [hne, if_false]
  set L := (Nat.digits 10 v.natAbs).length with hL
  have hLpos : 0 < L := List.length_pos_iff.mpr ((Nat.digits_ne_nil_iff_ne_zero (b := 10)).mpr hn)
  have h1 : 10 ^ (L - 1) ≤ v.natAbs := by
    have := Nat.base_pow_length_digits_le 10 v.natAbs (by norm_num) hn
    -- 10 ^ L ≤ 10 * natAbs
    have h10 : 10 ^ L = 10 * 10 ^ (L - 1) := by
      conv_lhs => rw [show L = (L - 1) + 1 by omega]
      rw [pow_succ]; ring
    rw [h10] at this
    exact Nat.le_of_mul_le_mul_left this (by norm_num)
  have h2 : v.natAbs < 10 ^ L := Nat.lt_base_pow_length_digits (by norm_num)
  constructor
  · have : ((L : ℤ) - 1).toNat = L - 1 := by omega
    rw [this]
    calc (10 : ℤ) ^ (L - 1) = ((10 ^ (L - 1) : ℕ) : ℤ) := by push_cast; rfl
      _ ≤ (v.natAbs : ℤ) := by exact_mod_cast h1
      _ = v := hcast
  · have : ((L : ℤ)).toNat = L := by omega
    rw [this]
    calc v = (v.natAbs : ℤ) := hcast.symm
      _ < ((10 ^ L : ℕ) : ℤ) := by exact_mod_cast h2
      _ = (10 : ℤ) ^ L := by push_cast; rfl

/-- pow10 is strictly monotone on the naturals embedded in ℤ. -/
theorem pow10_lt_of_lt (a b : ℤ) (ha : 0 ≤ a) (hab : a < b) : pow10 a < pow10 b := by
  have := pow10_strict a b ha hab
  have := pow10_pos a ha
  omega

theorem pow10_le_of_le (a b : ℤ) (ha : 0 ≤ a) (hab : a ≤ b) : pow10 a ≤ pow10 b := by
  rcases eq_or_lt_of_le hab with h | h
  · rw [h]
  · exact le_of_lt (pow10_lt_of_lt a b ha h)

theorem nd10_lower (v t : ℤ) (ht : 0 ≤ t) (h : pow10 t ≤ v) : t + 1 ≤ nd10 v := by
  have hv : 0 < v := by have := pow10_pos t ht; omega
  by_contra hcon
  push Not at hcon
  have hb := (nd10_bracket v hv).2
  have hle : nd10 v ≤ t := by omega
  have := pow10_le_of_le (nd10 v) t (by have := nd10_pos v; omega) hle
  omega

theorem nd10_upper (v t : ℤ) (ht : 1 ≤ t) (hv : 0 ≤ v) (h : v < pow10 t) : nd10 v ≤ t := by
  rcases eq_or_lt_of_le hv with h0 | hpos
  · rw [← h0, nd10_zero]; exact ht
  · by_contra hcon
    push Not at hcon
    have hb := (nd10_bracket v hpos).1
    have := pow10_le_of_le t (nd10 v - 1) (by omega) (by omega)
    omega

theorem nd10_mono (v w : ℤ) (hv : 0 ≤ v) (h : v ≤ w) : nd10 v ≤ nd10 w := by
  rcases eq_or_lt_of_le hv with h0 | hpos
  · rw [← h0, nd10_zero]; exact nd10_pos w
  · have hb := (nd10_bracket v hpos).1
    have := nd10_lower w (nd10 v - 1) (by have := nd10_pos v; omega) (by omega)
    omega

/-! Bit length. -/

def bitlen (v : ℤ) : ℤ := (Nat.size v.natAbs : ℤ)

theorem bitlen_nonneg (v : ℤ) : 0 ≤ bitlen v := by unfold bitlen; omega

theorem bitlen_zero : bitlen 0 = 0 := by simp [bitlen]

theorem bitlen_bracket (v : ℤ) (hv : 0 < v) :
    1 ≤ bitlen v ∧ pow2 (bitlen v - 1) ≤ v ∧ v < pow2 (bitlen v) := by
  have hcast : (v.natAbs : ℤ) = v := by omega
  have hn : 0 < v.natAbs := by omega
  unfold bitlen pow2
  set S := Nat.size v.natAbs with hS
  have hSpos : 0 < S := Nat.size_pos.mpr hn
  have hlt : v.natAbs < 2 ^ S := Nat.lt_size_self _
  have hge : 2 ^ (S - 1) ≤ v.natAbs := Nat.lt_size.mp (by omega)
  refine ⟨by omega, ?_, ?_⟩
  · have : ((S : ℤ) - 1).toNat = S - 1 := by omega
    rw [this]
    calc (2 : ℤ) ^ (S - 1) = ((2 ^ (S - 1) : ℕ) : ℤ) := by push_cast; rfl
      _ ≤ (v.natAbs : ℤ) := by exact_mod_cast hge
      _ = v := hcast
  · have : ((S : ℤ)).toNat = S := by omega
    rw [this]
    calc v = (v.natAbs : ℤ) := hcast.symm
      _ < ((2 ^ S : ℕ) : ℤ) := by exact_mod_cast hlt
      _ = (2 : ℤ) ^ S := by push_cast; rfl

theorem bitlen_le64 (v : ℤ) (h0 : 0 ≤ v) (h : v < 18446744073709551616) : bitlen v ≤ 64 := by
  unfold bitlen
  have : v.natAbs < 2 ^ 64 := by omega
  have := Nat.size_le.mpr this
  omega

theorem bitlen_hi (w0 w1 : ℤ) (h0 : 0 ≤ w0) (h1 : w0 < 18446744073709551616) (hw : 0 < w1) :
    bitlen (w0 + 18446744073709551616 * w1) = 64 + bitlen w1 := by
  unfold bitlen
  obtain ⟨a, rfl⟩ := Int.eq_ofNat_of_zero_le h0
  obtain ⟨b, rfl⟩ := Int.eq_ofNat_of_zero_le (le_of_lt hw)
  have hb : 0 < b := by exact_mod_cast hw
  have ha : a < 2 ^ 64 := by
    have : (a : ℤ) < 18446744073709551616 := h1
    exact_mod_cast this
  have hn : ((a : ℤ) + 18446744073709551616 * (b : ℤ)).natAbs = a + 2 ^ 64 * b := by
    have : ((a : ℤ) + 18446744073709551616 * (b : ℤ)) = ((a + 2 ^ 64 * b : ℕ) : ℤ) := by push_cast; ring
    rw [this]; exact Int.natAbs_natCast _
  rw [hn, Int.natAbs_natCast]
  have key : Nat.size (a + 2 ^ 64 * b) = 64 + Nat.size b := by
    apply le_antisymm
    · apply Nat.size_le.mpr
      have hbS : b < 2 ^ Nat.size b := Nat.lt_size_self b
      have : a + 2 ^ 64 * b < 2 ^ 64 * (b + 1) := by nlinarith
      calc a + 2 ^ 64 * b < 2 ^ 64 * (b + 1) := this
        _ ≤ 2 ^ 64 * 2 ^ Nat.size b := Nat.mul_le_mul_left _ (by omega)
        _ = 2 ^ (64 + Nat.size b) := by rw [pow_add]
    · have hSb : 0 < Nat.size b := Nat.size_pos.mpr hb
      have hge : 2 ^ (Nat.size b - 1) ≤ b := Nat.lt_size.mp (by omega)
      have : 2 ^ (64 + Nat.size b - 1) ≤ a + 2 ^ 64 * b := by
        have e : 64 + Nat.size b - 1 = 64 + (Nat.size b - 1) := by omega
        rw [e, pow_add]
        calc 2 ^ 64 * 2 ^ (Nat.size b - 1) ≤ 2 ^ 64 * b := Nat.mul_le_mul_left _ hge
          _ ≤ a + 2 ^ 64 * b := Nat.le_add_left _ _
      have := Nat.lt_size.mpr this
      omega
  rw [key]; push_cast; ring

end Apd
