package apd

// Bounded stand-ins and evaluated base cases used by the contract checks in /verif
// (injected with `go test -overlay`; never part of the repository).
//
//   TestVerifGlobals            exhaustive: the global invariants assumed by every proof, evaluated on
//                               all table entries and constants after the real init functions ran.
//   TestVerifNumDigitsEstimate  bounded: the assumed lemma about the float estimate in NumDigits,
//                               for every bit length 129..700000.
//   TestVerifBigIntBridge       bounded: BigInt wrappers against math/big on a boundary pool, all
//                               alias patterns, inline and heap-resident representations.
//   TestVerifRejComplete        bounded: the completeness argument for C14's rejection classes - every
//                               text over a 13-letter alphabet up to length 6 (and its upper-case twin) is
//                               either in the numeric-string grammar or in one of the fourteen classes
//                               RejText, never both, and NewFromString accepts exactly the former.

import (
	"bytes"
	"fmt"
	"math/big"
	"math/rand"
	"testing"
)

func TestVerifGlobals(t *testing.T) {
	n := 0
	ten := big.NewInt(10)
	for i := 0; i <= powerTenTableSize; i++ {
		want := new(big.Int).Exp(ten, big.NewInt(int64(i)), nil)
		if pow10LookupTable[i].MathBigInt().Cmp(want) != 0 {
			t.Fatalf("pow10LookupTable[%d]", i)
		}
		n++
	}
	for i := 1; i <= digitsTableSize; i++ {
		e := &digitsLookupTable[i]
		lo := new(big.Int).Lsh(big.NewInt(1), uint(i-1))
		digits := int64(len(lo.String()))
		border := new(big.Int).Exp(ten, big.NewInt(digits), nil)
		if e.digits != digits || e.digits < 1 || e.digits > 39 || e.border.MathBigInt().Cmp(border) != 0 || e.nborder.MathBigInt().Cmp(new(big.Int).Neg(border)) != 0 {
			t.Fatalf("digitsLookupTable[%d]", i)
		}
		n++
	}
	// the index table of the generated Form.String: non-decreasing offsets into _Form_name (invariant as stated in the contracts: <= 29)
	for i := 0; i+1 < len(_Form_index); i++ {
		if _Form_index[i] > _Form_index[i+1] || int(_Form_index[i+1]) > 29 || int(_Form_index[i+1]) > len(_Form_name) {
			t.Fatalf("_Form_index[%d]", i)
		}
		n++
	}
	if len(_Form_index) != 5 {
		t.Fatalf("_Form_index has %d entries; the invariant is stated for 5", len(_Form_index))
	}
	bigs := map[string][2]interface{}{"bigOne": {bigOne, int64(1)}, "bigTwo": {bigTwo, int64(2)}, "bigFive": {bigFive, int64(5)}, "bigTen": {bigTen, int64(10)}}
	for name, p := range bigs {
		if p[0].(*BigInt).MathBigInt().Cmp(big.NewInt(p[1].(int64))) != 0 {
			t.Fatalf("%s", name)
		}
		n++
	}
	type dc struct {
		name  string
		d     *Decimal
		form  Form
		neg   bool
		exp   int32
		coeff string
	}
	for _, c := range []dc{
		{"decimalZero", decimalZero, Finite, false, 0, "0"}, {"decimalOne", decimalOne, Finite, false, 0, "1"},
		{"decimalTwo", decimalTwo, Finite, false, 0, "2"}, {"decimalThree", decimalThree, Finite, false, 0, "3"},
		{"decimalEight", decimalEight, Finite, false, 0, "8"}, {"decimalHalf", decimalHalf, Finite, false, -1, "5"},
		{"decimalOneEighth", decimalOneEighth, Finite, false, -3, "125"},
		{"decimalMaxInt64", decimalMaxInt64, Finite, false, 0, "9223372036854775807"},
		{"decimalMinInt64", decimalMinInt64, Finite, true, 0, "9223372036854775808"},
		{"decimalNaN", decimalNaN, NaN, false, 0, "0"}, {"decimalInfinity", decimalInfinity, Infinite, false, 0, "0"},
	} {
		if c.d == nil || c.d.Form != c.form || c.d.Negative != c.neg || c.d.Exponent != c.exp || c.d.Coeff.String() != c.coeff {
			t.Fatalf("%s", c.name)
		}
		n++
	}
	inv := func(d *Decimal) bool { return d.Form >= 0 && d.Form <= 3 && d.Coeff.Sign() >= 0 }
	for _, d := range []*Decimal{decimalCbrtC1, decimalCbrtC2, decimalCbrtC3} {
		if !inv(d) {
			t.Fatal("cbrt constant")
		}
		n++
	}
	for _, c := range []*constWithPrecision{decimalLn10, decimalInvLn10} {
		if !inv(&c.unrounded) || len(c.vals) > 64 {
			t.Fatal("constWithPrecision")
		}
		for i := range c.vals {
			if !inv(&c.vals[i]) {
				t.Fatal("constWithPrecision.vals")
			}
			n++
		}
		n++
	}
	if BaseContext.Precision != 0 || BaseContext.MaxExponent != 100000 || BaseContext.MinExponent != -100000 || BaseContext.Traps != DefaultTraps || BaseContext.Rounding != "" {
		t.Fatal("BaseContext")
	}
	if negSentinel == nil {
		t.Fatal("negSentinel")
	}
	n += 2
	fmt.Printf("BOUNDED name=globals exhaustive=true cases=%d ok\n", n)
}

func TestVerifNumDigitsEstimate(t *testing.T) {
	// verified rational bounds L <= log2(10) <= U from an exact power: 2^p <= 10^q < 2^(p+1)
	const q = 1000000
	tenq := new(big.Int).Exp(big.NewInt(10), big.NewInt(q), nil)
	p := int64(tenq.BitLen() - 1)
	// exact fallback for the rare inconclusive cases
	exact := func(bl, n int64) bool {
		lo := new(big.Int).Exp(big.NewInt(10), big.NewInt(n-1), nil)
		hi := new(big.Int).Exp(big.NewInt(10), big.NewInt(n+1), nil)
		a := new(big.Int).Lsh(big.NewInt(1), uint(bl-1))
		b := new(big.Int).Lsh(big.NewInt(1), uint(bl))
		return lo.Cmp(a) <= 0 && b.Cmp(hi) <= 0
	}
	cases, slow := 0, 0
	for bl := int64(129); bl <= 700000; bl++ {
		n := int64(float64(bl) / digitsToBitsRatio)
		if n < 1 || n >= 1000000000 {
			t.Fatalf("bl=%d n=%d", bl, n)
		}
		// 10^(n-1) <= 2^(bl-1)  <==  (n-1)*U <= bl-1  with U = (p+1)/q
		// 2^bl <= 10^(n+1)      <==  bl <= (n+1)*L    with L = p/q
		if (n-1)*(p+1) <= (bl-1)*q && bl*q <= (n+1)*p {
			cases++
			continue
		}
		slow++
		if !exact(bl, n) {
			t.Fatalf("estimate lemma fails for bl=%d n=%d", bl, n)
		}
		cases++
	}
	// Beyond the exhaustive range the estimate is most at risk where bl/log2(10) is closest to an integer, i.e. where
	// bl is the numerator of a convergent or semiconvergent of log2(10). Those bit lengths (and their neighbours) are
	// checked up to 2^40 against a 300-bit value of log2(10): (n-1)*L <= bl-1 and bl <= (n+1)*L.
	L := func() *big.Float {
		// log2(10) = 3 + log2(1.25): computed as ln(10)/ln(2) by series with 320 bits
		prec := uint(320)
		ln := func(x float64) *big.Float { // ln(x) for x in {2, 10} via atanh series: ln(x) = 2*atanh((x-1)/(x+1))
			y := new(big.Float).SetPrec(prec).Quo(new(big.Float).SetPrec(prec).SetFloat64(x-1), new(big.Float).SetPrec(prec).SetFloat64(x+1))
			y2 := new(big.Float).SetPrec(prec).Mul(y, y)
			sum := new(big.Float).SetPrec(prec)
			term := new(big.Float).SetPrec(prec).Set(y)
			for k := int64(1); k < 4000; k += 2 {
				sum.Add(sum, new(big.Float).SetPrec(prec).Quo(term, new(big.Float).SetPrec(prec).SetInt64(k)))
				term.Mul(term, y2)
			}
			return sum.Mul(sum, new(big.Float).SetPrec(prec).SetInt64(2))
		}
		return new(big.Float).SetPrec(prec).Quo(ln(10), ln(2))
	}()
	if f, _ := L.Float64(); f < 3.3219280948873 || f > 3.3219280948874 {
		t.Fatalf("log2(10) computed as %v", f)
	}
	// continued fraction of L
	var cf []int64
	x := new(big.Float).SetPrec(320).Set(L)
	for i := 0; i < 30; i++ {
		ai, _ := x.Int64()
		cf = append(cf, ai)
		fr := new(big.Float).SetPrec(320).Sub(x, new(big.Float).SetPrec(320).SetInt64(ai))
		if fr.Sign() == 0 {
			break
		}
		x = new(big.Float).SetPrec(320).Quo(new(big.Float).SetPrec(320).SetInt64(1), fr)
	}
	h0, h1 := int64(1), cf[0]
	near := 0
	for _, ai := range cf[1:] {
		for tt := int64(1); tt <= ai; tt++ {
			pnum := tt*h1 + h0
			if pnum > 1<<40 {
				break
			}
			for bl := pnum - 2; bl <= pnum+2; bl++ {
				if bl < 129 {
					continue
				}
				n := int64(float64(bl) / digitsToBitsRatio)
				lhs := new(big.Float).SetPrec(320).Mul(new(big.Float).SetPrec(320).SetInt64(n-1), L)
				rhs := new(big.Float).SetPrec(320).Mul(new(big.Float).SetPrec(320).SetInt64(n+1), L)
				if lhs.Cmp(new(big.Float).SetPrec(320).SetInt64(bl-1)) > 0 || rhs.Cmp(new(big.Float).SetPrec(320).SetInt64(bl)) < 0 {
					t.Fatalf("estimate lemma fails near a convergent: bl=%d n=%d", bl, n)
				}
				near++
			}
		}
		if ai*h1+h0 > 1<<40 {
			break
		}
		h0, h1 = h1, ai*h1+h0
	}
	fmt.Printf("BOUNDED name=numdigits-float-estimate bound=bitlen129..700000+convergents_to_2^40 cases=%d exact_fallbacks=%d near_convergent=%d ok\n", cases, slow, near)
}

func TestVerifBigIntBridge(t *testing.T) {
	pool := []string{"0", "1", "-1", "2", "-5", "10", "4294967295", "4294967297", "-4294967296", "9223372036854775807", "9223372036854775808", "-9223372036854775808", "-9223372036854775809", "18446744073709551615", "18446744073709551616", "-18446744073709551617", "170141183460469231731687303715884105727", "170141183460469231731687303715884105729", "340282366920938463463374607431768211455", "340282366920938463463374607431768211456", "-340282366920938463463374607431768211457", "123456789012345678901234567890123456789012345678901234567890", "-99999999999999999999999999999999999999999999999999"}
	mk := func(s string, heap bool) *BigInt {
		z := new(BigInt)
		z.SetString(s, 10)
		if heap {
			z.Lsh(z, 300)
			z.Rsh(z, 300)
		}
		return z
	}
	mb := func(s string) *big.Int { n, _ := new(big.Int).SetString(s, 10); return n }
	cases := 0
	type binop struct {
		name string
		f    func(z, x, y *BigInt)
		g    func(z, x, y *big.Int)
		nz   bool
	}
	ops := []binop{
		{"Add", func(z, x, y *BigInt) { z.Add(x, y) }, func(z, x, y *big.Int) { z.Add(x, y) }, false},
		{"Sub", func(z, x, y *BigInt) { z.Sub(x, y) }, func(z, x, y *big.Int) { z.Sub(x, y) }, false},
		{"Mul", func(z, x, y *BigInt) { z.Mul(x, y) }, func(z, x, y *big.Int) { z.Mul(x, y) }, false},
		{"Quo", func(z, x, y *BigInt) { z.Quo(x, y) }, func(z, x, y *big.Int) { z.Quo(x, y) }, true},
		{"Rem", func(z, x, y *BigInt) { z.Rem(x, y) }, func(z, x, y *big.Int) { z.Rem(x, y) }, true},
	}
	check := func(what string, got *BigInt, want *big.Int) {
		if got.MathBigInt().Cmp(want) != 0 || got.Sign() != want.Sign() || got.String() != want.String() || got.BitLen() != want.BitLen() ||
			got.IsInt64() != want.IsInt64() || got.IsUint64() != want.IsUint64() || got.Uint64() != want.Uint64() || got.Int64() != want.Int64() || got.Bit(0) != want.Bit(0) {
			t.Fatalf("%s: got %s (sign %d, inline %v) want %s (sign %d)", what, got.String(), got.Sign(), got.isInline(), want.String(), want.Sign())
		}
		if got.Sign() == 0 && (got.Cmp(new(BigInt)) != 0 || got._inner == negSentinel) {
			t.Fatalf("%s: negative zero", what)
		}
	}
	for _, xs := range pool {
		for _, ys := range pool {
			for rep := 0; rep < 4; rep++ {
				for _, op := range ops {
					if op.nz && mb(ys).Sign() == 0 {
						continue
					}
					for alias := 0; alias < 4; alias++ {
						x, y := mk(xs, rep&1 != 0), mk(ys, rep&2 != 0)
						wx, wy := mb(xs), mb(ys)
						z := mk("77", false)
						want := new(big.Int)
						switch alias {
						case 0:
							op.g(want, wx, wy)
							op.f(z, x, y)
						case 1: // z == x
							op.g(want, wx, wy)
							op.f(x, x, y)
							z = x
						case 2: // z == y
							op.g(want, wx, wy)
							op.f(y, x, y)
							z = y
						case 3: // x == y (and z distinct)
							if op.nz && wx.Sign() == 0 {
								continue
							}
							op.g(want, wx, wx)
							op.f(z, x, x)
						}
						check(fmt.Sprintf("%s(%s,%s) alias=%d rep=%d", op.name, xs, ys, alias, rep), z, want)
						if alias == 0 && (x.MathBigInt().Cmp(wx) != 0 || y.MathBigInt().Cmp(wy) != 0) {
							t.Fatalf("%s modified an operand", op.name)
						}
						cases++
					}
				}
				// QuoRem, Cmp, CmpAbs, Neg, Abs, Set
				x, y := mk(xs, rep&1 != 0), mk(ys, rep&2 != 0)
				wx, wy := mb(xs), mb(ys)
				if wy.Sign() != 0 {
					var q, r BigInt
					wq, wr := new(big.Int).QuoRem(wx, wy, new(big.Int))
					q.QuoRem(x, y, &r)
					check("QuoRem.q", &q, wq)
					check("QuoRem.r", &r, wr)
				}
				if x.Cmp(y) != wx.Cmp(wy) || x.CmpAbs(y) != wx.CmpAbs(wy) {
					t.Fatalf("Cmp(%s,%s)", xs, ys)
				}
				// GCD with Bezout outputs: math/big itself can hand back a negative zero
				// (x.neg = !x.neg on a zero cosequence); the comparison is against the normalised value
				{
					norm := func(w *big.Int) *big.Int {
						if len(w.Bits()) == 0 {
							return new(big.Int)
						}
						return w
					}
					a, b := mk(xs, rep&1 != 0), mk(ys, rep&2 != 0)
					var g, bx, by BigInt
					bx.SetInt64(5)
					wg, wbx, wby := new(big.Int), new(big.Int), new(big.Int)
					wg.GCD(wbx, wby, wx, wy)
					g.GCD(&bx, &by, a, b)
					check("GCD.z "+xs+" "+ys, &g, norm(wg))
					check("GCD.x "+xs+" "+ys, &bx, norm(wbx))
					check("GCD.y "+xs+" "+ys, &by, norm(wby))
					var g2, bx2 BigInt
					g2.GCD(&bx2, nil, a, a)
					wg.GCD(wbx, nil, wx, wx)
					check("GCD.x(a,a) "+xs, &bx2, norm(wbx))
					// the same with heap-resident outputs (the receiver's own big.Int is handed to math/big)
					g3, bx3, by3 := mk("7", true), mk("-9", true), mk("11", true)
					g3.GCD(bx3, by3, a, a)
					wg.GCD(wbx, wby, wx, wx)
					check("GCD.x(a,a) heap "+xs, bx3, norm(wbx))
					check("GCD.y(a,a) heap "+xs, by3, norm(wby))
					check("GCD.z(a,a) heap "+xs, g3, norm(wg))
					wg.GCD(wbx, nil, wx, wx)
					var s2 BigInt
					s2.SetInt64(-3)
					check("SetMathBigInt(GCD x) "+xs, s2.SetMathBigInt(wbx), norm(wbx))
					cases += 8
				}
				var n1, a1, s1 BigInt
				check("Neg", n1.Neg(x), new(big.Int).Neg(wx))
				check("Abs", a1.Abs(x), new(big.Int).Abs(wx))
				check("Set", s1.Set(x), wx)
				check("Neg alias", x.Neg(x), new(big.Int).Neg(wx))
				cases += 8
			}
		}
	}
	// after a failed decode math/big can leave a zero with the previous sign flag; an inline BigInt stores it as a
	// plain zero, a heap-resident one holds that very big.Int: value and Sign must agree, the other observers are
	// compared only when math/big's own value is well formed
	checkDecoded := func(what string, got *BigInt, w *big.Int, succeeded bool) {
		if len(w.Bits()) == 0 && w.Cmp(new(big.Int)) != 0 {
			if got.Sign() != 0 || got.MathBigInt().Sign() != 0 || len(got.MathBigInt().Bits()) != 0 {
				t.Fatalf("%s: got %s (sign %d) want zero", what, got.String(), got.Sign())
			}
			// zero is never negative, whichever path produced it - also where math/big's own value is a zero with the sign
			// flag set (a successful GobDecode of {3}): every observer of the BigInt must see a plain zero
			// (after a failed decode the value is undefined, as in math/big: only value and Sign are compared there)
			if succeeded && (got.Cmp(new(BigInt)) != 0 || new(BigInt).Cmp(got) != 0 || !got.IsUint64() || !got.IsInt64() || got.CmpAbs(new(BigInt)) != 0) {
				t.Fatalf("%s: the result is a negative zero (Cmp(0) = %d, IsUint64 = %v)", what, got.Cmp(new(BigInt)), got.IsUint64())
			}
			return
		}
		check(what, got, w)
	}
	// decodes, failed and successful (the JSON literal null is a no-op for UnmarshalJSON only): math/big leaves an undefined
	// but well-formed value in the receiver after a failure; the BigInt must mirror it
	// (the partial digits were written into the BigInt's own inline words through the header)
	for _, zs := range pool {
		for rep := 0; rep < 2; rep++ {
			for _, txt := range []string{"0z", "12x", "1e5", "-7q", "", "-", "99999999999999999999999999999999999999999z", "0x1g", "null", "nul", "123", "-45", "+5", "\"12\"", " 7", "340282366920938463463374607431768211456", "-0",
				// gob encodings: version 1 with the sign bit set and an empty magnitude (math/big adopts the sign as it is), plain zero,
				// a negative zero with a leading zero byte, small values of both signs, an unsupported version
				"\x03", "\x02", "\x03\x00", "\x02\x05", "\x03\x05", "\x05\x01"} {
				z, w := mk(zs, rep == 1), mb(zs)
				e1, e2 := z.UnmarshalText([]byte(txt)), w.UnmarshalText([]byte(txt))
				if (e1 == nil) != (e2 == nil) {
					t.Fatalf("UnmarshalText(%q) on %s: error mismatch", txt, zs)
				}
				checkDecoded(fmt.Sprintf("UnmarshalText(%q) on %s", txt, zs), z, w, e1 == nil)
				z, w = mk(zs, rep == 1), mb(zs)
				e1, e2 = z.UnmarshalJSON([]byte(txt)), w.UnmarshalJSON([]byte(txt))
				if (e1 == nil) != (e2 == nil) {
					t.Fatalf("UnmarshalJSON(%q) on %s: error mismatch", txt, zs)
				}
				checkDecoded(fmt.Sprintf("UnmarshalJSON(%q) on %s", txt, zs), z, w, e1 == nil)
				z, w = mk(zs, rep == 1), mb(zs)
				_, ok1 := z.SetString(txt, 10)
				_, ok2 := w.SetString(txt, 10)
				if ok1 != ok2 {
					t.Fatalf("SetString(%q) on %s: ok mismatch", txt, zs)
				}
				checkDecoded(fmt.Sprintf("SetString(%q) on %s", txt, zs), z, w, ok1)
				z, w = mk(zs, rep == 1), mb(zs)
				e1, e2 = z.GobDecode([]byte(txt)), w.GobDecode([]byte(txt))
				if (e1 == nil) != (e2 == nil) {
					t.Fatalf("GobDecode(%q) on %s: error mismatch", txt, zs)
				}
				checkDecoded(fmt.Sprintf("GobDecode(%q) on %s", txt, zs), z, w, e1 == nil)
				z, w = mk(zs, rep == 1), mb(zs)
				_, e1 = fmt.Sscan(txt, z)
				_, e2 = fmt.Sscan(txt, w)
				if (e1 == nil) != (e2 == nil) {
					t.Fatalf("Sscan(%q) on %s: error mismatch", txt, zs)
				}
				checkDecoded(fmt.Sprintf("Scan(%q) on %s", txt, zs), z, w, e1 == nil)
				cases += 5
			}
		}
	}
	// SetBits adopts the caller's words: a copy, another BigInt's own words, an unnormalised slice, the receiver's own
	// words and a sub-slice of them, nothing. Rand draws from the same stream as math/big. The encoders and the
	// fmt.Formatter produce math/big's bytes (nil receivers included).
	one, wone := mk("1", false), mb("1")
	for _, zs := range pool {
		for _, xs := range pool {
			for rep := 0; rep < 4; rep++ {
				zh, xh := rep&1 != 0, rep&2 != 0
				what := fmt.Sprintf("z=%s(heap %v) x=%s(heap %v)", zs, zh, xs, xh)
				x, wx := mk(xs, xh), mb(xs)
				z, w := mk(zs, zh), mb(zs)
				z.SetBits(append([]big.Word(nil), x.Bits()...))
				w.SetBits(append([]big.Word(nil), wx.Bits()...))
				check("SetBits(copy) "+what, z, w)
				z.Add(z, one)
				w.Add(w, wone)
				check("SetBits(copy)+1 "+what, z, w)
				check("SetBits(copy): x "+what, x, wx)

				z, w = mk(zs, zh), mb(zs)
				z.SetBits(append(append([]big.Word(nil), x.Bits()...), 0, 0))
				w.SetBits(append(append([]big.Word(nil), wx.Bits()...), 0, 0))
				check("SetBits(unnormalised) "+what, z, w)
				z.Sub(z, one)
				w.Sub(w, wone)
				check("SetBits(unnormalised)-1 "+what, z, w)

				z, w = mk(zs, zh), mb(zs)
				z.SetBits(x.Bits())
				w.SetBits(wx.Bits())
				check("SetBits(shared) "+what, z, w)
				check("SetBits(shared): x "+what, x, wx)

				z, w = mk(zs, zh), mb(zs)
				z.SetBits(nil)
				w.SetBits(nil)
				check("SetBits(nil) "+what, z, w)
				z, w = mk(zs, zh), mb(zs)
				z.SetBits([]big.Word{0, 0, 0})
				w.SetBits([]big.Word{0, 0, 0})
				check("SetBits(zeros) "+what, z, w)
				z.Sub(z, one)
				w.Sub(w, wone)
				check("SetBits(zeros)-1 "+what, z, w)
				cases += 10

				if xs == pool[0] {
					z, w = mk(zs, zh), mb(zs)
					z.SetBits(z.Bits())
					w.SetBits(w.Bits())
					check("SetBits(own) "+what, z, w)
					z.Add(z, one)
					w.Add(w, wone)
					check("SetBits(own)+1 "+what, z, w)
					for _, cut := range [][2]int{{1, -1}, {0, 1}, {1, 1}} {
						z, w = mk(zs, zh), mb(zs)
						zb, wb := z.Bits(), w.Bits()
						lo, hi := cut[0], cut[1]
						if hi < 0 {
							hi = len(zb)
						}
						if len(zb) != len(wb) || lo > hi || hi > len(zb) {
							continue
						}
						z.SetBits(zb[lo:hi])
						w.SetBits(wb[lo:hi])
						check(fmt.Sprintf("SetBits(own[%d:%d]) %s", lo, hi, what), z, w)
						z.Add(z, x)
						w.Add(w, wx)
						check(fmt.Sprintf("SetBits(own[%d:%d])+x %s", lo, hi, what), z, w)
						z.Mul(z, z)
						w.Mul(w, w)
						check(fmt.Sprintf("SetBits(own[%d:%d])+x squared %s", lo, hi, what), z, w)
						cases += 3
					}
					cases += 2
				}

				for seed := int64(1); seed <= 3; seed++ {
					z, w = mk(zs, zh), mb(zs)
					z.Rand(rand.New(rand.NewSource(seed)), x)
					w.Rand(rand.New(rand.NewSource(seed)), wx)
					check(fmt.Sprintf("Rand(seed %d) %s", seed, what), z, w)
					check("Rand: n "+what, x, wx)
					if wx.Sign() > 0 && (z.Sign() < 0 || z.Cmp(x) >= 0) {
						t.Fatalf("Rand %s: %s outside [0, n)", what, z)
					}
					x2, wx2 := mk(xs, xh), mb(xs)
					x2.Rand(rand.New(rand.NewSource(seed)), x2)
					wx2.Rand(rand.New(rand.NewSource(seed)), wx2)
					check(fmt.Sprintf("Rand(seed %d, z == n) %s", seed, what), x2, wx2)
					cases += 2
				}
			}
		}
		for rep := 0; rep < 2; rep++ {
			z, w := mk(zs, rep == 1), mb(zs)
			g1, e1 := z.GobEncode()
			g2, e2 := w.GobEncode()
			t1, e3 := z.MarshalText()
			t2, e4 := w.MarshalText()
			j1, e5 := z.MarshalJSON()
			j2, e6 := w.MarshalJSON()
			if !bytes.Equal(g1, g2) || !bytes.Equal(t1, t2) || !bytes.Equal(j1, j2) || e1 != nil || e2 != nil || e3 != nil || e4 != nil || e5 != nil || e6 != nil {
				t.Fatalf("encoders of %s differ from math/big", zs)
			}
			for _, f := range []string{"%d", "%v", "%s", "%x", "%X", "%o", "%O", "%b", "%+d", "% d", "%10d", "%-10d|", "%010d", "%#x", "%#o", "%.5d", "%+.3x", "%12.7d", "%q", "%e", "%c", "%z"} {
				if a, b := fmt.Sprintf(f, z), fmt.Sprintf(f, w); a != b {
					t.Fatalf("Sprintf(%q, %s): %q, math/big %q", f, zs, a, b)
				}
				cases++
			}
			check("after encoding "+zs, z, w)
			cases += 3
		}
	}
	{
		var nz *BigInt
		var nw *big.Int
		g1, _ := nz.GobEncode()
		g2, _ := nw.GobEncode()
		t1, _ := nz.MarshalText()
		t2, _ := nw.MarshalText()
		j1, _ := nz.MarshalJSON()
		j2, _ := nw.MarshalJSON()
		if !bytes.Equal(g1, g2) || !bytes.Equal(t1, t2) || !bytes.Equal(j1, j2) || fmt.Sprintf("%d|%x|%z", nz, nz, nz) != fmt.Sprintf("%d|%x|%z", nw, nw, nw) {
			t.Fatalf("encoders/Format of a nil receiver differ from math/big")
		}
		cases += 4
	}
	fmt.Printf("BOUNDED name=bigint-bridge bound=pool%dx%dx4reps x4alias cases=%d ok\n", len(pool), len(pool), cases)
}

// ---- C14: the fourteen rejection classes (hand translation of the Rej* macros of verif_contracts.go) against an
// independent recogniser of the numeric-string grammar and against the real parser, exhaustively on short texts.

func vrDigit(c byte) bool  { return '0' <= c && c <= '9' }
func vrLetter(c byte) bool { return ('A' <= c && c <= 'Z') || ('a' <= c && c <= 'z') }
func vrE(c byte) bool      { return c == 'e' || c == 'E' }
func vrSign(c byte) bool   { return c == '+' || c == '-' }
func vrBad(c byte) bool {
	return c < 128 && !vrDigit(c) && !vrSign(c) && c != '.' && !vrLetter(c)
}
func vrAscii(s []byte) bool {
	for _, c := range s {
		if c >= 128 {
			return false
		}
	}
	return true
}
func vrOff(s []byte) int {
	if len(s) > 0 && vrSign(s[0]) {
		return 1
	}
	return 0
}
func vrNumStart(s []byte) bool {
	if len(s) == 0 {
		return false
	}
	if vrSign(s[0]) {
		return len(s) > 1 && (vrDigit(s[1]) || s[1] == '.')
	}
	return vrDigit(s[0]) || s[0] == '.'
}
func vrCI(s []byte, p int, w string) bool {
	if len(s) < p+len(w) {
		return false
	}
	for i := 0; i < len(w); i++ {
		if s[p+i] != w[i] && s[p+i] != w[i]-32 {
			return false
		}
	}
	return true
}
func vrInf(s []byte, p int) bool {
	return (len(s) == p+3 && vrCI(s, p, "inf")) || (len(s) == p+8 && vrCI(s, p, "infinity"))
}
func vrNoDigit(s []byte) bool {
	for _, c := range s {
		if vrDigit(c) {
			return false
		}
	}
	return true
}

func vrRej(s []byte, k, k2 int) string {
	n, off := len(s), vrOff(s)
	if !vrAscii(s) {
		return ""
	}
	in := func(i int) bool { return 0 <= i && i < n }
	ns := vrNumStart(s)
	nan, snan := vrCI(s, off, "nan"), vrCI(s, off, "snan")
	switch {
	case n == off:
		return "empty"
	case ns && in(k) && vrLetter(s[k]) && !vrE(s[k]):
		return "letter"
	case nan && off+3 <= k && k < n && !vrDigit(s[k]):
		return "nan_tail"
	case snan && off+4 <= k && k < n && !vrDigit(s[k]):
		return "snan_tail"
	case n > off && vrLetter(s[off]) && !vrInf(s, off) && !nan && !snan:
		return "word"
	case in(k) && in(k2) && k < k2 && s[k] == '.' && s[k2] == '.':
		return "two_points"
	case ns && in(k) && in(k2) && k < k2 && vrE(s[k]) && vrE(s[k2]):
		return "two_e"
	case 1 <= k && k < n && vrSign(s[k]) && !vrE(s[k-1]):
		return "sign_inside"
	case ns && n >= 2 && vrE(s[n-1]):
		return "exp_empty"
	case in(k) && vrBad(s[k]):
		return "char"
	case vrNoDigit(s) && !vrInf(s, off) && !(nan && n == off+3) && !(snan && n == off+4):
		return "no_digit"
	case off <= k && k < n && vrE(s[k]) && vrNoDigit(s[:k]) && (!vrLetter(s[off]) || k == off):
		return "no_mant"
	case ns && n >= 2 && vrSign(s[n-1]):
		return "end_sign"
	case ns && in(k) && in(k2) && k < k2 && vrE(s[k]) && s[k2] == '.':
		return "point_exp"
	}
	return ""
}

// vrGram: the numeric-string grammar of the property statement (optional sign; digits with at most one point; optional
// e/E exponent with optional sign; inf/infinity; nan/snan with optional digits; case-insensitive).
func vrGram(s []byte) bool {
	u := bytes.ToLower(s[vrOff(s):])
	if string(u) == "inf" || string(u) == "infinity" {
		return true
	}
	for _, p := range []string{"snan", "nan"} {
		if bytes.HasPrefix(u, []byte(p)) {
			for _, c := range u[len(p):] {
				if !vrDigit(c) {
					return false
				}
			}
			return true
		}
	}
	j, nd, np := 0, 0, 0
	for j < len(u) && (vrDigit(u[j]) || u[j] == '.') {
		if u[j] == '.' {
			np++
		} else {
			nd++
		}
		j++
	}
	if nd == 0 || np > 1 {
		return false
	}
	if j == len(u) {
		return true
	}
	if u[j] != 'e' {
		return false
	}
	j++
	if j < len(u) && vrSign(u[j]) {
		j++
	}
	k := j
	for j < len(u) && vrDigit(u[j]) {
		j++
	}
	return j == len(u) && j > k
}

func TestVerifRejComplete(t *testing.T) {
	alpha := []byte("+-.e05naifsx_")
	const maxLen = 6
	cases, bad := 0, 0
	classes := map[string]int{}
	check := func(s []byte) {
		cases++
		_, _, err := NewFromString(string(s))
		acc, g := err == nil, vrGram(s)
		cls := ""
		for k := -1; k < len(s) && cls == ""; k++ {
			for k2 := -1; k2 < len(s) && cls == ""; k2++ {
				cls = vrRej(s, k, k2)
			}
		}
		if cls != "" {
			classes[cls]++
		}
		if acc != g || (g && cls != "") || (!g && cls == "") {
			bad++
			if bad <= 20 {
				t.Errorf("%q: accepted=%v grammatical=%v rejection class=%q", s, acc, g, cls)
			}
		}
	}
	buf := make([]byte, 0, maxLen)
	var rec func()
	rec = func() {
		check(buf)
		if up := bytes.ToUpper(buf); !bytes.Equal(up, buf) {
			check(up)
		}
		if len(buf) == maxLen {
			return
		}
		for _, c := range alpha {
			buf = append(buf, c)
			rec()
			buf = buf[:len(buf)-1]
		}
	}
	rec()
	if bad > 0 {
		t.Fatalf("%d of %d texts disagree", bad, cases)
	}
	fmt.Printf("BOUNDED name=rejection-classes-complete bound=alphabet13_len0..%d_and_uppercase cases=%d classes_hit=%d ok\n", maxLen, cases, len(classes))
}
